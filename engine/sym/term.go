// Package sym: hash-consed SMT terms (Int, Bool, Array Int Int) with constant folding.
package sym

import (
	"fmt"
	"strconv"
	"strings"
)

type Sort uint8

const (
	SInt Sort = iota
	SBool
	SArr
)

type Op uint8

const (
	OConst Op = iota // int or bool constant
	OVar
	OAdd
	OSub
	OMul
	ODiv // SMT div (euclidean); Go semantics are built on top in interp
	OMod // SMT mod
	ONeg
	OEq
	OLt
	OLe
	ONot
	OAnd
	OOr
	OIte
	OSelect
)

var opName = map[Op]string{OAdd: "+", OSub: "-", OMul: "*", ODiv: "div", OMod: "mod", ONeg: "-", OEq: "=", OLt: "<", OLe: "<=", ONot: "not", OAnd: "and", OOr: "or", OIte: "ite", OSelect: "select"}

type Term struct {
	ID   int
	Op   Op
	Sort Sort
	Args []*Term
	I    int64 // const value (int) or 0/1 for bool
	Name string
	size int
}

func (t *Term) IsConst() bool { return t.Op == OConst }
func (t *Term) IsTrue() bool  { return t.Op == OConst && t.Sort == SBool && t.I == 1 }
func (t *Term) IsFalse() bool { return t.Op == OConst && t.Sort == SBool && t.I == 0 }
func (t *Term) Size() int     { return t.size }

// Store hash-conses terms. One per worker; not safe for concurrent use.
type Store struct {
	tab   map[string]*Term
	next  int
	Vars  []*Term // declared variables in order
	True  *Term
	False *Term
}

func NewStore() *Store {
	s := &Store{tab: map[string]*Term{}}
	s.True = s.mk(&Term{Op: OConst, Sort: SBool, I: 1})
	s.False = s.mk(&Term{Op: OConst, Sort: SBool, I: 0})
	return s
}

func (s *Store) key(t *Term) string {
	var b strings.Builder
	b.WriteByte(byte('A' + t.Op))
	b.WriteByte(byte('0' + t.Sort))
	switch t.Op {
	case OConst:
		b.WriteString(strconv.FormatInt(t.I, 10))
	case OVar:
		b.WriteString(t.Name)
	default:
		for _, a := range t.Args {
			b.WriteByte(',')
			b.WriteString(strconv.Itoa(a.ID))
		}
	}
	return b.String()
}

func (s *Store) mk(t *Term) *Term {
	k := s.key(t)
	if e, ok := s.tab[k]; ok {
		return e
	}
	t.ID = s.next
	s.next++
	t.size = 1
	for _, a := range t.Args {
		t.size += a.size
		if t.size > 1<<30 {
			t.size = 1 << 30
		}
	}
	s.tab[k] = t
	if t.Op == OVar {
		s.Vars = append(s.Vars, t)
	}
	return t
}

func (s *Store) NumTerms() int { return s.next }

func (s *Store) Int(v int64) *Term { return s.mk(&Term{Op: OConst, Sort: SInt, I: v}) }
func (s *Store) Bool(b bool) *Term {
	if b {
		return s.True
	}
	return s.False
}
func (s *Store) Var(name string, sort Sort) *Term {
	return s.mk(&Term{Op: OVar, Sort: sort, Name: name})
}

func addOv(a, b int64) (int64, bool) {
	c := a + b
	if (c > a) == (b > 0) {
		return c, true
	}
	return c, false
}

func (s *Store) Add(a, b *Term) *Term {
	if a.IsConst() && b.IsConst() {
		if c, ok := addOv(a.I, b.I); ok {
			return s.Int(c)
		}
	}
	if a.IsConst() && a.I == 0 {
		return b
	}
	if b.IsConst() && b.I == 0 {
		return a
	}
	// (x + c1) + c2 => x + (c1+c2)
	if b.IsConst() && a.Op == OAdd && a.Args[1].IsConst() {
		if c, ok := addOv(a.Args[1].I, b.I); ok {
			return s.Add(a.Args[0], s.Int(c))
		}
	}
	if b.IsConst() && a.Op == OSub && a.Args[1].IsConst() {
		if c, ok := addOv(-a.Args[1].I, b.I); ok {
			return s.Add(a.Args[0], s.Int(c))
		}
	}
	if a.IsConst() && !b.IsConst() {
		a, b = b, a
	}
	if b.IsConst() && b.I < 0 && b.I != -1<<63 {
		return s.mk(&Term{Op: OSub, Sort: SInt, Args: []*Term{a, s.Int(-b.I)}})
	}
	return s.mk(&Term{Op: OAdd, Sort: SInt, Args: []*Term{a, b}})
}

func (s *Store) Sub(a, b *Term) *Term {
	if b.IsConst() && b.I != -1<<63 {
		return s.Add(a, s.Int(-b.I))
	}
	if a == b {
		return s.Int(0)
	}
	// (x + c) - x => c ; (x+c) - (x+d)
	ba, ca := splitAddConst(a)
	bb, cb := splitAddConst(b)
	if ba == bb && ba != nil {
		return s.Int(ca - cb)
	}
	return s.mk(&Term{Op: OSub, Sort: SInt, Args: []*Term{a, b}})
}

func splitAddConst(t *Term) (*Term, int64) {
	if t.Op == OAdd && t.Args[1].IsConst() {
		return t.Args[0], t.Args[1].I
	}
	if t.Op == OSub && t.Args[1].IsConst() {
		return t.Args[0], -t.Args[1].I
	}
	if t.IsConst() {
		return nil, t.I
	}
	return t, 0
}

func (s *Store) Mul(a, b *Term) *Term {
	if a.IsConst() && b.IsConst() {
		if a.I == 0 || b.I == 0 {
			return s.Int(0)
		}
		c := a.I * b.I
		if c/b.I == a.I {
			return s.Int(c)
		}
	}
	if a.IsConst() && a.I == 1 {
		return b
	}
	if b.IsConst() && b.I == 1 {
		return a
	}
	if (a.IsConst() && a.I == 0) || (b.IsConst() && b.I == 0) {
		return s.Int(0)
	}
	return s.mk(&Term{Op: OMul, Sort: SInt, Args: []*Term{a, b}})
}

func (s *Store) Neg(a *Term) *Term {
	if a.IsConst() {
		return s.Int(-a.I)
	}
	return s.Sub(s.Int(0), a)
}

// EDiv / EMod are SMT-LIB div/mod (euclidean). Only built for symbolic operands.
func (s *Store) EDiv(a, b *Term) *Term {
	return s.mk(&Term{Op: ODiv, Sort: SInt, Args: []*Term{a, b}})
}
func (s *Store) EMod(a, b *Term) *Term {
	return s.mk(&Term{Op: OMod, Sort: SInt, Args: []*Term{a, b}})
}

func (s *Store) Eq(a, b *Term) *Term {
	if a == b {
		return s.True
	}
	if a.IsConst() && b.IsConst() {
		return s.Bool(a.I == b.I)
	}
	if a.Sort == SBool {
		if a.IsConst() {
			a, b = b, a
		}
		if b.IsTrue() {
			return a
		}
		if b.IsFalse() {
			return s.Not(a)
		}
	}
	if a.IsConst() {
		a, b = b, a
	}
	if b.IsConst() && a.Sort == SInt {
		// (x + c) == k => x == k-c
		if base, c := splitAddConst(a); base != nil && c != 0 {
			return s.Eq(base, s.Int(b.I-c))
		}
		// ite(c, k1, k2) == k
		if a.Op == OIte {
			x, y := a.Args[1], a.Args[2]
			if x.IsConst() || y.IsConst() {
				return s.Ite(a.Args[0], s.Eq(x, b), s.Eq(y, b))
			}
		}
	}
	if a.ID > b.ID && !b.IsConst() {
		a, b = b, a
	}
	return s.mk(&Term{Op: OEq, Sort: SBool, Args: []*Term{a, b}})
}

func (s *Store) Lt(a, b *Term) *Term {
	if a.IsConst() && b.IsConst() {
		return s.Bool(a.I < b.I)
	}
	if a == b {
		return s.False
	}
	ba, ca := splitAddConst(a)
	bb, cb := splitAddConst(b)
	if ba == bb && ba != nil {
		return s.Bool(ca < cb)
	}
	return s.mk(&Term{Op: OLt, Sort: SBool, Args: []*Term{a, b}})
}

func (s *Store) Le(a, b *Term) *Term {
	if a.IsConst() && b.IsConst() {
		return s.Bool(a.I <= b.I)
	}
	if a == b {
		return s.True
	}
	ba, ca := splitAddConst(a)
	bb, cb := splitAddConst(b)
	if ba == bb && ba != nil {
		return s.Bool(ca <= cb)
	}
	return s.mk(&Term{Op: OLe, Sort: SBool, Args: []*Term{a, b}})
}
func (s *Store) Gt(a, b *Term) *Term { return s.Lt(b, a) }
func (s *Store) Ge(a, b *Term) *Term { return s.Le(b, a) }
func (s *Store) Ne(a, b *Term) *Term { return s.Not(s.Eq(a, b)) }

func (s *Store) Not(a *Term) *Term {
	if a.IsConst() {
		return s.Bool(a.I == 0)
	}
	if a.Op == ONot {
		return a.Args[0]
	}
	return s.mk(&Term{Op: ONot, Sort: SBool, Args: []*Term{a}})
}

func (s *Store) And(ts ...*Term) *Term {
	var out []*Term
	seen := map[int]bool{}
	for _, t := range ts {
		if t.IsTrue() {
			continue
		}
		if t.IsFalse() {
			return s.False
		}
		if t.Op == OAnd {
			for _, a := range t.Args {
				if !seen[a.ID] {
					seen[a.ID] = true
					out = append(out, a)
				}
			}
			continue
		}
		if !seen[t.ID] {
			seen[t.ID] = true
			out = append(out, t)
		}
	}
	for _, t := range out {
		if t.Op == ONot && seen[t.Args[0].ID] {
			return s.False
		}
	}
	if len(out) == 0 {
		return s.True
	}
	if len(out) == 1 {
		return out[0]
	}
	return s.mk(&Term{Op: OAnd, Sort: SBool, Args: out})
}

func (s *Store) Or(ts ...*Term) *Term {
	var out []*Term
	seen := map[int]bool{}
	for _, t := range ts {
		if t.IsFalse() {
			continue
		}
		if t.IsTrue() {
			return s.True
		}
		if t.Op == OOr {
			for _, a := range t.Args {
				if !seen[a.ID] {
					seen[a.ID] = true
					out = append(out, a)
				}
			}
			continue
		}
		if !seen[t.ID] {
			seen[t.ID] = true
			out = append(out, t)
		}
	}
	for _, t := range out {
		if t.Op == ONot && seen[t.Args[0].ID] {
			return s.True
		}
	}
	if len(out) == 0 {
		return s.False
	}
	if len(out) == 1 {
		return out[0]
	}
	return s.mk(&Term{Op: OOr, Sort: SBool, Args: out})
}

func (s *Store) Implies(a, b *Term) *Term { return s.Or(s.Not(a), b) }

func (s *Store) Ite(c, a, b *Term) *Term {
	if c.IsTrue() {
		return a
	}
	if c.IsFalse() {
		return b
	}
	if a == b {
		return a
	}
	if a.Sort == SBool {
		if a.IsTrue() && b.IsFalse() {
			return c
		}
		if a.IsFalse() && b.IsTrue() {
			return s.Not(c)
		}
		if a.IsTrue() {
			return s.Or(c, b)
		}
		if a.IsFalse() {
			return s.And(s.Not(c), b)
		}
		if b.IsTrue() {
			return s.Or(s.Not(c), a)
		}
		if b.IsFalse() {
			return s.And(c, a)
		}
	}
	if c.Op == ONot {
		return s.Ite(c.Args[0], b, a)
	}
	return s.mk(&Term{Op: OIte, Sort: a.Sort, Args: []*Term{c, a, b}})
}

func (s *Store) Select(arr, idx *Term) *Term {
	return s.mk(&Term{Op: OSelect, Sort: SInt, Args: []*Term{arr, idx}})
}

// InRange: lo <= t <= hi
func (s *Store) InRange(t *Term, lo, hi int64) *Term {
	return s.And(s.Le(s.Int(lo), t), s.Le(t, s.Int(hi)))
}

func sortName(so Sort) string {
	switch so {
	case SInt:
		return "Int"
	case SBool:
		return "Bool"
	}
	return "(Array Int Int)"
}

// String renders the term as SMT-LIB without sharing (debug / small terms).
func (t *Term) String() string {
	switch t.Op {
	case OConst:
		if t.Sort == SBool {
			if t.I == 1 {
				return "true"
			}
			return "false"
		}
		if t.I < 0 {
			return fmt.Sprintf("(- %d)", uint64(-t.I))
		}
		return strconv.FormatInt(t.I, 10)
	case OVar:
		return t.Name
	}
	var b strings.Builder
	b.WriteByte('(')
	b.WriteString(opName[t.Op])
	for _, a := range t.Args {
		b.WriteByte(' ')
		b.WriteString(a.String())
	}
	b.WriteByte(')')
	return b.String()
}
