package sym

import (
	"bufio"
	"fmt"
	"io"
	"os"
	"os/exec"
	"strconv"
	"strings"
	"time"
)

// Solver is a long-lived SMT solver process driven over stdin/stdout.
type Solver struct {
	Name      string
	cmd       *exec.Cmd
	in        io.WriteCloser
	out       *bufio.Reader
	st        *Store
	defined   map[int]bool // term ids emitted as define-fun / declare
	depth     int
	Queries   int
	Sat       int
	Unsat     int
	Unknown   int
	Errors    int
	Time      time.Duration
	log       io.Writer
	LastErr   string
	TimeoutMS int
}

// Kind: "z3" (z3-new), "z3old", "cvc5"
func NewSolver(kind string, st *Store, timeoutMS int) (*Solver, error) {
	var cmd *exec.Cmd
	switch kind {
	case "z3":
		cmd = exec.Command("z3-new", "-in", "-smt2")
	case "z3old":
		cmd = exec.Command("/usr/bin/z3", "-in", "-smt2")
	case "cvc5":
		cmd = exec.Command("cvc5", "--incremental", "--lang=smt2", "--global-declarations", fmt.Sprintf("--tlimit-per=%d", timeoutMS))
	default:
		return nil, fmt.Errorf("unknown solver %s", kind)
	}
	in, err := cmd.StdinPipe()
	if err != nil {
		return nil, err
	}
	outp, err := cmd.StdoutPipe()
	if err != nil {
		return nil, err
	}
	cmd.Stderr = os.Stderr
	if err := cmd.Start(); err != nil {
		return nil, err
	}
	s := &Solver{Name: kind, cmd: cmd, in: in, out: bufio.NewReaderSize(outp, 1<<20), st: st, defined: map[int]bool{}, TimeoutMS: timeoutMS}
	if p := os.Getenv("GOSYM_SMTLOG"); p != "" {
		f, _ := os.OpenFile(p, os.O_CREATE|os.O_APPEND|os.O_WRONLY, 0644)
		s.log = f
	}
	if kind == "cvc5" {
		s.send("(set-logic ALL)")
	} else {
		s.send("(set-option :global-declarations true)")
		s.send(fmt.Sprintf("(set-option :timeout %d)", timeoutMS))
	}
	return s, nil
}

func (s *Solver) Close() {
	if s == nil || s.cmd == nil {
		return
	}
	s.in.Close()
	done := make(chan struct{})
	go func() { s.cmd.Wait(); close(done) }()
	select {
	case <-done:
	case <-time.After(2 * time.Second):
		s.cmd.Process.Kill()
	}
	s.cmd = nil
}

func (s *Solver) send(line string) {
	if s.log != nil {
		fmt.Fprintln(s.log, line)
	}
	io.WriteString(s.in, line)
	io.WriteString(s.in, "\n")
}

// ref returns the SMT-LIB text referring to t, emitting definitions as needed.
func (s *Solver) ref(t *Term) string {
	switch t.Op {
	case OConst:
		return t.String()
	case OVar:
		if !s.defined[t.ID] {
			s.defined[t.ID] = true
			s.send(fmt.Sprintf("(declare-fun %s () %s)", t.Name, sortName(t.Sort)))
		}
		return t.Name
	}
	if s.defined[t.ID] {
		return "t" + strconv.Itoa(t.ID)
	}
	var b strings.Builder
	b.WriteByte('(')
	b.WriteString(opName[t.Op])
	for _, a := range t.Args {
		b.WriteByte(' ')
		b.WriteString(s.ref(a))
	}
	b.WriteByte(')')
	if t.size <= 6 {
		return b.String()
	}
	s.defined[t.ID] = true
	name := "t" + strconv.Itoa(t.ID)
	s.send(fmt.Sprintf("(define-fun %s () %s %s)", name, sortName(t.Sort), b.String()))
	return name
}

func (s *Solver) Push() { s.send("(push 1)"); s.depth++ }
func (s *Solver) Pop()  { s.send("(pop 1)"); s.depth-- }
func (s *Solver) PopAll() {
	for s.depth > 0 {
		s.Pop()
	}
}

func (s *Solver) Assert(t *Term) {
	r := s.ref(t)
	s.send("(assert " + r + ")")
}

type Result int

const (
	RUnsat Result = iota
	RSat
	RUnknown
)

func (r Result) String() string { return [...]string{"unsat", "sat", "unknown"}[r] }

func (s *Solver) readLine() string {
	line, err := s.out.ReadString('\n')
	if err != nil {
		s.LastErr = "solver died: " + err.Error()
		return "(error \"solver died\")"
	}
	return strings.TrimSpace(line)
}

func (s *Solver) Check() Result {
	t0 := time.Now()
	s.send("(check-sat)")
	var r Result
	for {
		line := s.readLine()
		if line == "" {
			continue
		}
		switch {
		case line == "sat":
			r = RSat
			s.Sat++
		case line == "unsat":
			r = RUnsat
			s.Unsat++
		case line == "unknown" || strings.HasPrefix(line, "timeout"):
			r = RUnknown
			s.Unknown++
		case strings.HasPrefix(line, "(error"):
			s.Errors++
			s.LastErr = line
			if strings.Contains(line, "died") {
				r = RUnknown
				s.Unknown++
				s.Queries++
				s.Time += time.Since(t0)
				return r
			}
			continue // an error line precedes the verdict; remembered, verdict treated as unknown below
		default:
			continue
		}
		break
	}
	if s.LastErr != "" && s.Errors > 0 {
		// any error since the last Check makes the verdict inconclusive
		r = RUnknown
	}
	s.Queries++
	s.Time += time.Since(t0)
	return r
}

// ClearErr resets the sticky error flag (called at path start).
func (s *Solver) ClearErr() { s.LastErr = ""; s.Errors = 0 }

// CheckWith: push, assert extra, check, pop.
func (s *Solver) CheckWith(extra ...*Term) Result {
	s.Push()
	for _, e := range extra {
		s.Assert(e)
	}
	r := s.Check()
	s.Pop()
	return r
}

// Values evaluates Int/Bool terms in a model of the current assertions. It (re)runs check-sat itself,
// because emitting definitions invalidates the solver's current model.
func (s *Solver) Values(ts []*Term) ([]int64, error) {
	if len(ts) == 0 {
		return nil, nil
	}
	refs := make([]string, len(ts))
	for i, t := range ts {
		refs[i] = s.ref(t)
	}
	if r := s.Check(); r != RSat {
		return nil, fmt.Errorf("Values: assertions not sat (%s)", r)
	}
	out := make([]int64, 0, len(ts))
	const chunk = 64
	for i := 0; i < len(ts); i += chunk {
		j := i + chunk
		if j > len(ts) {
			j = len(ts)
		}
		s.send("(get-value (" + strings.Join(refs[i:j], " ") + "))")
		txt, err := s.readSexp()
		if err != nil {
			return nil, err
		}
		vals, err := parseValues(txt, j-i)
		if err != nil {
			return nil, fmt.Errorf("%v in %q", err, txt)
		}
		out = append(out, vals...)
	}
	return out, nil
}

func (s *Solver) readSexp() (string, error) {
	var b strings.Builder
	depth := 0
	started := false
	for {
		line, err := s.out.ReadString('\n')
		if err != nil {
			return "", err
		}
		if strings.HasPrefix(strings.TrimSpace(line), "(error") && !started {
			return "", fmt.Errorf("solver: %s", strings.TrimSpace(line))
		}
		for _, c := range line {
			if c == '(' {
				depth++
				started = true
			} else if c == ')' {
				depth--
			}
		}
		b.WriteString(line)
		if started && depth == 0 {
			return b.String(), nil
		}
	}
}

// parseValues parses "((e1 v1) (e2 v2) ...)" where v is an int literal, (- n), true or false.
func parseValues(txt string, n int) ([]int64, error) {
	toks := tokenize(txt)
	pos := 0
	next := func() string {
		if pos < len(toks) {
			t := toks[pos]
			pos++
			return t
		}
		return ""
	}
	var skip func()
	skip = func() { // skip one s-expression
		t := next()
		if t == "(" {
			for pos < len(toks) && toks[pos] != ")" {
				skip()
			}
			next()
		}
	}
	parseVal := func() (int64, error) {
		t := next()
		switch t {
		case "true":
			return 1, nil
		case "false":
			return 0, nil
		case "(":
			op := next()
			if op != "-" {
				return 0, fmt.Errorf("unexpected value op %q", op)
			}
			v := next()
			x, err := strconv.ParseInt(v, 10, 64)
			if err != nil {
				u, err2 := strconv.ParseUint(v, 10, 64)
				if err2 != nil {
					return 0, err
				}
				x = int64(u)
				if next() != ")" {
					return 0, fmt.Errorf("expected )")
				}
				return -x, nil
			}
			if next() != ")" {
				return 0, fmt.Errorf("expected )")
			}
			return -x, nil
		default:
			return strconv.ParseInt(t, 10, 64)
		}
	}
	if next() != "(" {
		return nil, fmt.Errorf("expected (")
	}
	var out []int64
	for i := 0; i < n; i++ {
		if next() != "(" {
			return nil, fmt.Errorf("expected ( for pair")
		}
		skip() // the expression
		v, err := parseVal()
		if err != nil {
			return nil, err
		}
		out = append(out, v)
		if next() != ")" {
			return nil, fmt.Errorf("expected ) for pair")
		}
	}
	return out, nil
}

func tokenize(s string) []string {
	var toks []string
	i := 0
	for i < len(s) {
		c := s[i]
		switch {
		case c == '(' || c == ')':
			toks = append(toks, string(c))
			i++
		case c == ' ' || c == '\n' || c == '\t' || c == '\r':
			i++
		default:
			j := i
			for j < len(s) && !strings.ContainsRune("() \n\t\r", rune(s[j])) {
				j++
			}
			toks = append(toks, s[i:j])
			i = j
		}
	}
	return toks
}
