module verif/gosym

go 1.25

require (
	github.com/cloudflare/ahocorasick v0.0.0-20240916140611-054963ec9396
	golang.org/x/tools v0.38.0
)

require (
	golang.org/x/mod v0.29.0 // indirect
	golang.org/x/sync v0.17.0 // indirect
)
