package main

import (
	"fmt"
	"time"

	"verif/gosym/eng"
)

// observeStrings runs a harness that only nd.Observe()s concrete strings and returns them.
func observeStrings(c *checkCtx, harness string) map[string]string {
	ex := eng.NewExplorer(c.prog, fullName(harness))
	ex.Workers = 1
	if err := ex.Run(); err != nil || len(ex.Samples) == 0 {
		c.incon = append(c.incon, fmt.Sprintf("could not read regex sources via %s: %v %v", harness, err, ex.Inconclusive))
		return nil
	}
	out := map[string]string{}
	for k, v := range ex.Samples[0].Observed {
		if s, ok := v.(string); ok {
			out[k] = s
		}
	}
	return out
}

type langPair struct {
	name string // key of the source regex in the observed map; reference is "ref_"+name
	msg  string // assertion message in the native witness harness
}

// langEquiv: unbounded (all lengths, ASCII) language equivalence of each source regex with its frozen reference,
// decided by the solvers' string theory on RegLan terms regenerated from the current source.
func langEquiv(c *checkCtx, regexHarness, witnessHarness string, pairs []langPair) {
	srcs := observeStrings(c, regexHarness)
	if srcs == nil {
		return
	}
	for _, p := range pairs {
		a, errA := eng.RegLan(srcs[p.name])
		b, errB := eng.RegLan(srcs["ref_"+p.name])
		if errA != nil || errB != nil {
			c.incon = append(c.incon, fmt.Sprintf("RegLan translation of %s failed: %v %v", p.name, errA, errB))
			continue
		}
		// two difference queries (each is decided in milliseconds; the xor form is not)
		langDecide(c, "L("+p.name+") minus L(reference) is empty", fmt.Sprintf("(and (str.in_re s %s) (not (str.in_re s %s)))", a, b), witnessHarness, p.msg, srcs[p.name])
		langDecide(c, "L(reference) minus L("+p.name+") is empty", fmt.Sprintf("(and (str.in_re s %s) (not (str.in_re s %s)))", b, a), witnessHarness, p.msg, srcs[p.name])
	}
}

func langDecide(c *checkCtx, what, formula, witnessHarness, msg, src string) {
	c.extraObl++
	v, wit, secs, err := eng.LangQuery("z3", formula, 60*time.Second)
	c.extraSolverS += secs
	if err != nil || v == "unknown" {
		v2, wit2, secs2, err2 := eng.LangQuery("cvc5", formula, 120*time.Second)
		c.extraSolverS += secs2
		if err2 != nil || v2 == "unknown" {
			c.incon = append(c.incon, fmt.Sprintf("language query %s: unknown on both solvers (%v %v)", what, err, err2))
			return
		}
		v, wit = v2, wit2
	}
	if c.tier == "thorough" && v == "unsat" {
		// second opinion with a short limit (cvc5 often does not finish these; a timeout is no disagreement)
		v2, _, secs2, err2 := eng.LangQuery("cvc5", formula, 10*time.Second)
		c.extraSolverS += secs2
		if err2 == nil && v2 == "sat" {
			c.incon = append(c.incon, "solver disagreement on language query "+what)
			return
		}
	}
	sample := map[string]interface{}{"language_query": what, "all_lengths": true, "alphabet": "ASCII", "verdict": v, "solver_s": secs, "source_regex": src}
	if v == "sat" {
		sample["witness"] = wit
		c.viol = append(c.viol, eng.Violation{Harness: fullName(witnessHarness), Kind: "assert", Msg: msg, Pos: "unbounded language query", Model: eng.Model{"text": wit}})
	}
	c.extraSamples = append(c.extraSamples, sample)
}

// langInclusion: every string accepted by a source regex has the documented prefix form
// WS* "//" WS* "@keyword" followed by end of text or a blank (unbounded, ASCII).
func langInclusion(c *checkCtx, regexHarness, witnessHarness string, keywords map[string]string) {
	srcs := observeStrings(c, regexHarness)
	if srcs == nil {
		return
	}
	ws := `(re.union (re.range "\u{9}" "\u{a}") (re.range "\u{c}" "\u{d}") (str.to_re " "))`
	all := `(re.* (re.range "\u{0}" "\u{7f}"))`
	for name, kw := range keywords {
		a, err := eng.RegLan(srcs[name])
		if err != nil {
			c.incon = append(c.incon, fmt.Sprintf("RegLan translation of %s failed: %v", name, err))
			continue
		}
		prefix := fmt.Sprintf(`(re.++ (re.* %s) (str.to_re "//") (re.* %s) (str.to_re %s) (re.opt (re.++ %s %s)))`, ws, ws, eng.SmtString("@"+kw), ws, all)
		langDecide(c, "L("+name+") is inside the anchored prefix form of @"+kw, fmt.Sprintf("(and (str.in_re s %s) (not (str.in_re s %s)))", a, prefix), witnessHarness, "accepted text has the anchored lowercase @"+kw+" prefix form", srcs[name])
	}
}
