package main

import (
	"verif/gosym/eng"
)

func findProp(id string) *Prop {
	for i := range props {
		if props[i].ID == id {
			return &props[i]
		}
	}
	return nil
}

var props = []Prop{
	{
		ID: "C19",
		Runs: []Run{
			{Harness: "reporting.ZZC19K1", Desc: "truncateString x calculateDisplayColumn: caret under the reported byte, excerpt length bound; line of ANY length (no static bound), display limit = the real constant",
				Bounds: map[string]interface{}{"line_length": "0 .. 2^31-1 (symbolic, unbounded view)", "column": "1 .. len+1", "loops": "none in the encoded functions"}},
		},
		Outside:     []string{"multi-byte characters are bytes (Go's Column is a byte count)", "bufio.Scanner 64KiB token limit"},
		Assumptions: []string{"line bytes are in 0..127"},
	},
}

var _ = eng.RepoMod
