package main

import (
	"verif/gosym/eng"
)

func findProp(id string) *Prop {
	for i := range props {
		if props[i].ID == id {
			return &props[i]
		}
	}
	return nil
}

var props = []Prop{
	{
		ID: "C19",
		Runs: []Run{
			{Harness: "reporting.ZZC19K1", Desc: "truncateString x calculateDisplayColumn: caret under the reported byte, excerpt length bound; line of ANY length (no static bound), display limit = the real constant",
				Bounds: map[string]interface{}{"line_length": "0 .. 2^31-1 (symbolic, unbounded view)", "column": "1 .. len+1", "loops": "none in the encoded functions"}},
			{Harness: "reporting.ZZC19K2", Desc: "readSourceLines: arbitrary cached file of 0..5 lines (opaque contents), arbitrary diagnostic line in [1,2^31): window = lines max(1,L-2)..min(n,L+1) with their numbers; shorter-than-expected files give an empty or partial window, never a failure",
				Bounds: map[string]interface{}{"file_lines": "0..5", "diagnostic_line": "1..2^31-1"}},
			{Harness: "reporting.ZZC19K2Unreadable", Desc: "ReadFile error degrades to no excerpt", Bounds: map[string]interface{}{"diagnostic_line": "any int"}},
			{Harness: "reporting.ZZC19ShortRead", Desc: "ReportViolation end to end with a ReadFile that delivers a prefix of the parsed text: every cut that loses the byte before the reported column (file ends before the line or inside it before the column) gives header + help link, no excerpt and no caret", Bounds: map[string]interface{}{"content": "4 lines, diagnostic on line 3 column 30", "cut": "0 .. offset of the reported column - 1 (all, pinned)"}},
			{Harness: "reporting.ZZC19Utf8", Desc: "multi-byte characters: a one-line file of three characters, each arbitrary in {a, TAB, 2-byte e-acute, 3-byte euro sign, nothing}, column = byte column of any character boundary: the whole rendered message, with ONE caret cell per character before the column", Bounds: map[string]interface{}{"characters": 3, "alphabet": 5}},
			{Harness: "reporting.ZZC19Utf8x4", Tier: "thorough", Desc: "the same with four characters", Bounds: map[string]interface{}{"characters": 4}},
			{Harness: "reporting.ZZC19Utf8Long", Desc: "truncation never cuts a character: 308-byte line of 150 two-byte characters + ASCII text, column = byte column of ANY character: the shown piece begins and ends at character boundaries, the caret column addresses the reported character, length bound", Bounds: map[string]interface{}{"line": "150 x 2-byte + 8 ASCII", "column": "any character start"}},
			{Harness: "reporting.ZZC19InvalidUtf8Long", Desc: "the length bound does not depend on valid UTF-8: a 400-byte line of continuation bytes only, any column 1..len+1", Bounds: map[string]interface{}{"line": "400 x 0x85"}},
			{Harness: "reporting.ZZC19VeryLongLine", Desc: "a 70 000-byte line (beyond bufio's default token limit): diagnostic on it or on the line below, column 1..3: the reported line is shown (truncated) with its caret and the lines after it are not lost", Bounds: map[string]interface{}{"line_bytes": 70000}},
			{Harness: "reporting.ZZC19K3Small", Desc: "ReportViolation end to end: arbitrary file content (<=7 bytes, <=2 lines, tabs), any existing diagnostic line, any column 1..len+1, 3-byte message, 2 codes: the whole rendered message equals header + numbered window + caret row repeating the line's tabs + help link",
				Bounds: map[string]interface{}{"content_bytes": 7, "lines": "<=2", "tabs": "<=2", "msg_bytes": 3}},
			{Harness: "reporting.ZZC19Tabs", Desc: "a 320-byte line with tabs at the start, in the middle and near the end, 14 diagnostic columns over all truncation regimes: caret row repeats the tabs of the DISPLAYED line; excerpt and caret computed from the original line and column", Bounds: map[string]interface{}{"columns": 14}},
			{Harness: "reporting.ZZC19History", Desc: "history independence: one Reporter renders two diagnostics on the same 500-byte line (11 columns covering the three truncation regimes and their boundaries, second diagnostic on that line or on its neighbour): the second message equals what a fresh Reporter renders", Bounds: map[string]interface{}{"columns": "11 x 11", "second_line": "2..3"}},
			{Harness: "reporting.ZZC19K4", Tier: "thorough", Desc: "composition on a line longer than the display limit (256 bytes, 6 of them arbitrary), any column: the rendered excerpt and caret row equal truncateString / calculateDisplayColumn of the ORIGINAL line and column", Bounds: map[string]interface{}{"line_bytes": "250..256", "column": "1..len+1"},
				Setup: func(ex *eng.Explorer, tier string) { ex.MaxDecisions = 2000 }},
			{Harness: "reporting.ZZC19K3", Tier: "thorough", Desc: "the same with <=10 bytes, <=3 lines, 6 codes", Bounds: map[string]interface{}{"content_bytes": 10, "lines": "<=3", "tabs": "<=2", "msg_bytes": 3}},
		},
		Outside:     []string{"multi-byte characters are bytes (Go's Column is a byte count)", "bufio.Scanner 64KiB token limit", "carriage returns in the end-to-end harness", "end-to-end rendering of lines longer than 10 bytes (the caret column for every length comes from K1)", "diagnostic line beyond the end of the file in the end-to-end harness (window behaviour for that case is K2)"},
		Assumptions: []string{"line bytes are in 0..127"},
	},
}

const codesSummary = eng.RepoMod + "/src/codes.ZZCodesSummary"
const codesReal = eng.RepoMod + "/src/codes.GetCodesForCheck"

func withCodesSummary(ex *eng.Explorer, tier string) {
	if ex.Redirects == nil {
		ex.Redirects = map[string]string{}
	}
	ex.Redirects[codesReal] = codesSummary
}

func init() {
	props = append(props,
		Prop{
			ID: "C16",
			Runs: []Run{
				{Harness: "codes.ZZLemmaCodesSummary", Desc: "lemma: for every string (atom, any length) codes.GetCodesForCheck yields ALL, the category if any, the code itself — i.e. equals the 3-line summary used by the history harnesses; real table lookup forks over its 21 keys + unknown",
					Bounds: map[string]interface{}{"code": "arbitrary string (opaque atom)"}},
				{Harness: "util.ZZC16Empty", Desc: "nil / uninitialised / initialised-empty collection never suppresses", Bounds: map[string]interface{}{"code": "arbitrary atom", "pos": "any int"}},
				{Harness: "util.ZZC16History2", Desc: "every history of <= 2 add-operations (scoped or global, 1-2 arbitrary code strings each, arbitrary ranges incl. empty/reversed) then a query: Contains == list-scan reference",
					Bounds: map[string]interface{}{"ops": "0..2", "codes_per_op": "1..2 (arbitrary strings, atoms)", "range": "start,end in [1,2^31)", "query_pos": "[0,2^31)"}, Setup: withCodesSummary},
				{Harness: "util.ZZC16History4One", Desc: "every history of <= 4 add-operations with one code each", Bounds: map[string]interface{}{"ops": "0..4", "codes_per_op": 1, "range": "start,end in [1,2^31)", "query_pos": "[0,2^31)"}, Setup: withCodesSummary},
				{Harness: "util.ZZC16Alphabet3", Desc: "histories of <= 3 operations (one code each) over the property's finite code alphabet {ALL, IMM, IMM01, IMM02, CTOR01, CTOR, CTOR02, XYZ}: concrete spellings, so that code looking INTO the strings (prefix tests etc.) is executed rather than refused as with opaque atoms", Bounds: map[string]interface{}{"ops": "0..3", "codes_per_op": 1, "alphabet": 8}, Setup: withCodesSummary},
				{Harness: "util.ZZC16Alphabet2Two", Desc: "the same alphabet, <= 2 operations with 1-2 codes each", Bounds: map[string]interface{}{"ops": "0..2", "codes_per_op": "1..2", "alphabet": 8}, Setup: withCodesSummary},
				{Harness: "util.ZZC16History3", Tier: "thorough", Desc: "every history of <= 3 add-operations with 1-2 codes each", Bounds: map[string]interface{}{"ops": "0..3", "codes_per_op": "1..2"}, Setup: withCodesSummary},
			},
			Outside:     []string{"more than 4 markers in one collection; more than 2 codes per marker; ranges containing token.NoPos (0) (outside the property's precondition)", "Add on a nil receiver (no call site passes nil)"},
			Assumptions: []string{"codes are compared only for equality by the code under test (atoms: any other use aborts the run as inconclusive)", "GetCodesForCheck replaced by its summary in the history harnesses; the summary is proved equal to the real function by the lemma harness on every run"},
		},
		Prop{
			ID: "C18",
			Runs: []Run{
				{Harness: "config.ZZC18Scan", Desc: "scan-tests: arbitrary GOGREEMENT_SCAN_TESTS (set?, any ASCII string) x flag (absent or any spelling flag accepts); other options absent; all three Config fields compared with the reference resolution",
					Bounds: map[string]interface{}{"env_value_bytes": 12, "flag_values": "12 spellings accepted by flag.BoolVar"}},
				{Harness: "config.ZZC18Paths", Desc: "exclude-paths: arbitrary env value and flag value", Bounds: map[string]interface{}{"value_bytes": 8, "commas": 2}},
				{Harness: "config.ZZC18Checks", Desc: "exclude-checks: arbitrary env value and flag value (upper-casing)", Bounds: map[string]interface{}{"value_bytes": 8, "commas": 2}},
				{Harness: "config.ZZC18Cross", Desc: "priority and absence of cross-talk: all 2^6 combinations of {flag given, env set} x 3 options with fixed pairwise-different values, 12 flag spellings", Bounds: map[string]interface{}{"presence_grid": "2^6", "values": "fixed"}},
				{Harness: "config.ZZC18ScanLong", Tier: "thorough", Desc: "scan-tests env value up to 24 bytes", Bounds: map[string]interface{}{"env_value_bytes": 24}},
				{Harness: "config.ZZC18PathsLong", Tier: "thorough", Desc: "exclude-paths values up to 10 bytes, 2 commas", Bounds: map[string]interface{}{"value_bytes": 10, "commas": 2}, Setup: func(ex *eng.Explorer, tier string) { ex.TimeoutMS = 240000 }},
				{Harness: "config.ZZC18ChecksLong", Tier: "thorough", Desc: "exclude-checks values up to 10 bytes, 2 commas", Bounds: map[string]interface{}{"value_bytes": 10, "commas": 2}, Setup: func(ex *eng.Explorer, tier string) { ex.TimeoutMS = 240000 }},
			},
			Outside: []string{"argv parsing and the 'config.' flag prefix added by x/tools multichecker; the process start of cmd/gogreement (the observation point is the *Config returned by ParseFlagsFromFlagSet, which runConfig hands to every analyzer)",
				"values longer than the stated byte bounds or with more commas; non-ASCII bytes (unicode.IsSpace / ToUpper beyond ASCII)", "two options with long arbitrary values at the same time (only one option is arbitrary per harness; the presence grid is checked with fixed values)",
				"boolean flag values that flag.Parse itself rejects (the tool exits with usage before any analyzer runs)"},
			Assumptions: []string{"GOGREEMENT_ENV_ONLY unset (as in the property)", "os.Getenv/LookupEnv stubbed as arbitrary (set?, value)", "flag.FlagSet, strconv.ParseBool executed from their SSA"},
		},
	)
}

func init() {
	props = append(props,
		Prop{
			ID: "C15",
			Runs: []Run{
				{Harness: "annotations.ZZC15Simple20", Desc: "@immutable/@testonly/@mutable: real parse*Annotation (compiled regex program of the source literal executed symbolically) vs frozen reference grammar, every ASCII comment text", Bounds: map[string]interface{}{"text_bytes": 20}},
				{Harness: "annotations.ZZC15Constructor24", Desc: "@constructor: recognition and parsed name list vs reference", Bounds: map[string]interface{}{"text_bytes": 24, "list_items": "<= 5 (Split unwinding asserted)"}},
				{Harness: "annotations.ZZC15PackageOnly24", Desc: "@packageonly: recognition and allow-list (declaring package first) vs reference", Bounds: map[string]interface{}{"text_bytes": 24, "list_items": "<= 5"}},
				{Harness: "ignore.ZZC15Ignore18", Desc: "@ignore: recognition and upper-cased code list vs reference", Bounds: map[string]interface{}{"text_bytes": 18, "list_items": "<= 5"}},
				{Harness: "zzverif/zzh.ZZC15bAttachment", Desc: "attachment sites: a comment (6 annotation keywords, plain, 5 near-misses) at any two of 12 sites of a file (doc of type spec / type group / func / method / named field of an @immutable struct / field of another struct / embedded field / var / const, trailing comment, comment in a body, doc of a local type; plus a block-comment doc; a two-line doc whose lines are arbitrary independently; a member of a type(...) group with its OWN doc next to the group's doc — its own doc must take effect, the group doc's reach to it is a don't-care): annotations are produced exactly at the effective sites", Bounds: map[string]interface{}{"sites": 17, "non_plain_comments": "<= 2", "alternatives": 17}},
				{Harness: "zzverif/zzh.ZZC15bAttachment3", Tier: "thorough", Desc: "attachment sites with any three non-plain comments at a time", Bounds: map[string]interface{}{"non_plain_comments": "<= 3"}},
				{Harness: "zzverif/zzh.ZZC15bIgnoreLines", Desc: "every line of a comment group is recognised on its own: six comment lines in three groups (before a declaration, inside a function, trailing a statement), any three non-plain at a time over 5 spellings; the number of @ignore markers equals the number of well-formed @ignore lines", Bounds: map[string]interface{}{"lines": 6, "non_plain_at_a_time": 3, "spellings": 5}},
				{Harness: "zzverif/zzh.ZZC15bParenStruct", Desc: "a type whose struct type is written in parentheses (type P (struct{...})): docs of the type and of its named field arbitrary over 17 spellings each: @immutable / @mutable take effect as for a bare struct type", Bounds: map[string]interface{}{"holes": 2, "alternatives": 17}},
				{Harness: "zzverif/zzh.ZZC15bIgnoreLines6", Tier: "thorough", Desc: "the same with all six lines arbitrary at once (15625 combinations)", Bounds: map[string]interface{}{"lines": 6, "non_plain_at_a_time": 6}},
				{Harness: "annotations.ZZC15Simple28", Tier: "thorough", Desc: "@immutable/@testonly/@mutable on 28-byte comments", Bounds: map[string]interface{}{"text_bytes": 28}, Setup: func(ex *eng.Explorer, tier string) { ex.TimeoutMS = 300000 }},
				{Harness: "annotations.ZZC15Constructor27", Tier: "thorough", Desc: "@constructor on 27-byte comments (30 bytes with up to 7 list items did not finish: the split bound was exceeded after 23 min — reduced)", Bounds: map[string]interface{}{"text_bytes": 27, "list_items": "<= 8"}, Setup: func(ex *eng.Explorer, tier string) { ex.TimeoutMS = 300000; ex.MaxSplit = 8 }},
				{Harness: "annotations.ZZC15Implements30", Tier: "thorough", Desc: "@implements on 30-byte comments", Bounds: map[string]interface{}{"text_bytes": 30}, Setup: func(ex *eng.Explorer, tier string) { ex.TimeoutMS = 300000 }},
				{Harness: "zzverif/zzh.ZZC15bMutablePairs", Desc: "docs of two structs and of their same-named fields arbitrary at once (17 spellings each): @mutable belongs to the field of the struct whose own doc carries @immutable", Bounds: map[string]interface{}{"sites": 4, "alternatives": 17}},
				{Harness: "annotations.ZZC15Implements24", Desc: "@implements: recognition, pointer flag, qualifier, name vs reference", Bounds: map[string]interface{}{"text_bytes": 24}},
			},
			Post: func(c *checkCtx) {
				langEquiv(c, "annotations.ZZC15Regexes", "annotations.ZZC15Lang", []langPair{
					{"implements", "language(implements) == reference, all lengths"},
					{"constructor", "language(constructor) == reference, all lengths"},
					{"immutable", "language(immutable) == reference, all lengths"},
					{"testonly", "language(testonly) == reference, all lengths"},
					{"mutable", "language(mutable) == reference, all lengths"},
					{"packageonly", "language(packageonly) == reference, all lengths"},
				})
				langEquiv(c, "ignore.ZZC15IgnoreRegex", "ignore.ZZC15Lang", []langPair{{"ignore", "language(ignore) == reference, all lengths"}})
			},
			Outside:     []string{"comment texts longer than the stated bounds for the parsed value (recognition itself is decided for all lengths by the RegLan queries)", "bytes >= 0x80"},
			Assumptions: []string{"comment bytes are ASCII (0..127)", "aho-corasick Matcher.Contains replaced by its contract (true iff a dictionary word is a substring; dictionary recorded from the real init)", "leftmost-first regex semantics obtained by executing regexp/syntax's compiled program"},
		},
	)
}

func init() {
	props = append(props,
		Prop{
			ID: "C01",
			Runs: []Run{
				{Harness: "zzverif/zzh.ZZC01Basic", Desc: "one package: @immutable/@constructor/@mutable presence, compound operator (all 11) and ++/-- symbolic; assignment, compound, mutable field, index, inc/dec, read, constructor body",
					Bounds: map[string]interface{}{"skeleton": "c01SrcD", "holes": 5}},
				{Harness: "zzverif/zzh.ZZC01Edge", Desc: "edge forms of a direct field write: parenthesised targets ((x.f) = v, (x.f)[i], (x.f)++, (x.f) += v, (x).f, (*x).f), compound assignment / parenthesised inc-dec and set through the pointer receiver, fields promoted through an embedded @immutable struct (value and pointer embedding; =, ++, op=, element), an @mutable doc above a field declaration with two names, and a function-local type sharing the annotated type's name (nothing reported)", Bounds: map[string]interface{}{"skeleton": "c01SrcEdge", "sites": 22, "holes": 3}},
				{Harness: "zzverif/zzh.ZZC01Methods", Desc: "pointer/value receiver methods, receiver overwrite and increment, nesting in if/for/switch/select/closure/defer/go, value variable, unannotated twin; annotations on T, N and the constructor list symbolic", Bounds: map[string]interface{}{"skeleton": "c01SrcMethods", "holes": 3}},
				{Harness: "zzverif/zzh.ZZC01Init", Desc: "writes in package-level initialisers: before any function, after a constructor in the same file, in another file of the package (3 files)", Bounds: map[string]interface{}{"skeleton": "c01SrcInit{A,B,C}", "holes": 2}},
				{Harness: "zzverif/zzh.ZZC01Shadow", Desc: "receiver overwrite vs. a block-local variable and a closure parameter that share the receiver name", Bounds: map[string]interface{}{"skeleton": "c01SrcShadow"}},
				{Harness: "zzverif/zzh.ZZCrossImmCtor", Desc: "type in package d, uses in the importing package u (facts), incl. a function of u that shares the constructor's name", Bounds: map[string]interface{}{"skeleton": "crossSrc{D,U}", "holes": 4}},
			},
			Outside:     []string{"generics; promoted fields through embedding; parenthesised left-hand sides"},
			Assumptions: []string{"program skeletons are parsed and type-checked by the real go/parser and go/types; their AST is imported into the interpreter heap; go/types objects are host objects queried through accessor methods"},
		},
	)
}

func init() {
	props = append(props,
		Prop{
			ID: "C02",
			Runs: []Run{
				{Harness: "zzverif/zzh.ZZC02Basic", Desc: "every instantiation form (T{}, &T{}, elided slice/map element, new(T), var x T, var x,y T) and the negatives (*T var, blank, initialised var, unannotated type), inside/outside the listed constructors, package-level vars before/after a constructor; constructor list spelling symbolic", Bounds: map[string]interface{}{"skeleton": "c02SrcA", "holes": 1}},
				{Harness: "zzverif/zzh.ZZC02Forms", Desc: "two-file package whose second file never spells the annotated type: alias (T{}, new, var), named slice / pointer-map types with elided elements, []*T / map[K]*T elided pointer elements, arrays, nested literals, literals as field values, new((T)), closures inside a constructor, a constructor in the other file, init, generic function, method, nested blocks, go/defer closures, package-level vars, literals inside constant expressions and array-length type expressions (package-level and local const/type); constructor list symbolic over 4 spellings", Bounds: map[string]interface{}{"skeleton": "c02SrcF1+F2", "sites": 32, "list_spellings": 4}},
				{Harness: "zzverif/zzh.ZZC02Local", Desc: "a function-local type sharing the annotated type's name (T{}, new(T), var: nothing reported) and a local function value named new called with a *T (not an instantiation)", Bounds: map[string]interface{}{"skeleton": "c02SrcLocal"}},
				{Harness: "zzverif/zzh.ZZCrossImmCtor", Desc: "instantiations in the importing package (T{}, new(T), var), incl. all three forms inside a same-named function of the importer", Bounds: map[string]interface{}{"skeleton": "crossSrc{D,U}", "holes": 4}},
			},
			Outside:     []string{"generics; type parameters; struct embedding of the annotated type; reflect-based instantiation"},
			Assumptions: []string{"program skeletons parsed/type-checked by go/parser + go/types; facts passed in-process"},
		},
	)
}

func init() {
	props = append(props,
		Prop{
			ID: "C03",
			Runs: []Run{
				{Harness: "zzverif/zzh.ZZC03Same", Desc: "same package: call, method call, composite literal, var, field, parameter, method value, unannotated twins; file name (regular / _test.go / look-alike), scan-tests, @testonly on type/func/method/enclosing function and enclosing method all symbolic", Bounds: map[string]interface{}{"skeleton": "c03SrcD + c03SrcProd", "holes": 6, "config": "ScanTests symbolic"}},
				{Harness: "zzverif/zzh.ZZC03Edge", Desc: "uses nested inside an already reported call, an unannotated method named like a @testonly function (and a function named like a @testonly method), parenthesised callees, a method promoted through embedding vs the explicit path, elided composite literals ([]*T{{}}, map[K]T{k:{}}) as the only use in their file, a function-local type sharing the @testonly type's name, a dot-importing package (call, method call, literal); 2^4 annotation combinations", Bounds: map[string]interface{}{"skeleton": "c03Src{ED,E1,E2,E2b,E3,EU}", "holes": 4}},
				{Harness: "zzverif/zzh.ZZC03Shadow", Desc: "local variable / parameter sharing the name of a @testonly function", Bounds: map[string]interface{}{"skeleton": "c03SrcShadow"}},
				{Harness: "zzverif/zzh.ZZC03Cross", Desc: "uses in a directly importing package (facts), same-named local function and method", Bounds: map[string]interface{}{"skeleton": "c03SrcD + c03SrcU", "holes": 3}},
				{Harness: "zzverif/zzh.ZZC03TwoPkgs", Desc: "two imported packages declaring a same-named @testonly type, both used in one file", Bounds: map[string]interface{}{"skeleton": "c03SrcD1/D2/U2", "holes": 2}},
			},
			Outside:     []string{"generics; external test packages (package d_test) as separate passes", "a site that names two @testonly types at once (map[TJ]TH): one report per site", "aliases of func / struct types that contain a @testonly type", "a @testonly init / _ function beside unannotated ones of the same name"},
			Assumptions: []string{"program skeletons parsed/type-checked by go/parser + go/types; facts passed in-process; file names flow only through token.FileSet.Position"},
		},
	)
}

func init() {
	props = append(props,
		Prop{
			ID: "C04",
			Runs: []Run{
				{Harness: "packageonly.ZZC04Kernel2", Desc: "allow-list decision kernel (find{Type,Function,Method}Violation over util.AttachmentsMap) for ARBITRARY allow-list entries and an arbitrary user package path and name (opaque atoms): up to two @packageonly lines on items of two declaring packages (kind, package, item and receiver from a two-name alphabet, 1-2 entries each plus the declaring package), one scoped marker (6 tokens, any range), already-reported flag; violation iff annotated, foreign, neither path nor name in the UNION of the item's lists, not suppressed, not yet reported", Bounds: map[string]interface{}{"annotation_lines": "0..2", "entries_per_line": "1..2 + declaring package", "names": "2-letter alphabet for items, atoms for entries/user"}},
				{Harness: "packageonly.ZZC04Kernel3", Tier: "thorough", Desc: "the same with up to three lines (93 k paths)", Bounds: map[string]interface{}{"annotation_lines": "0..3"}},
				{Harness: "zzverif/zzh.ZZC04Cross", Desc: "references from package u (path zzmod/u, name u) to @packageonly type/function/method of d: call, method call, method value, type in parameter/literal/var/field; allow-list shapes symbolic (bare, by name, by path, several entries + trailing comma, second annotation line = union, look-alike names, absent); same-package uses in d", Bounds: map[string]interface{}{"skeleton": "c04SrcD + c04SrcU", "holes": 4, "allow_list_spellings": "6 x 3 x 5 x 4"}},
				{Harness: "zzverif/zzh.ZZC04Names", Desc: "two types of d with a method of the SAME name plus a function of that name, each with its own allow-list (5 holes, 960 spelling combinations); a user package that shares d's package NAME under another path (allowed only by 'd' or its full path), a user file WITHOUT import declarations reaching restricted methods through variables of a sibling file, method expression (*dd.T).M, renamed import", Bounds: map[string]interface{}{"skeleton": "c04Src{D2,U1,U3,W}", "holes": 5}},
				{Harness: "zzverif/zzh.ZZC04SelfName", Desc: "a declaring package whose import path is a single element (core) and a foreign package that carries that element as its NAME (zzmod/app/core): bare and foreign allow-lists do not admit it (function call, type literal)", Bounds: map[string]interface{}{"skeleton": "c04Src{Core,AppCore}", "holes": 2}},
			},
			Outside:     []string{"dot-imports; generic items; references through type aliases (see C13)"},
			Assumptions: []string{"program skeletons parsed/type-checked by go/parser + go/types; facts passed in-process"},
		},
		Prop{
			ID: "C07",
			Runs: []Run{
				{Harness: "zzverif/zzh.ZZC07Scopes", Desc: "10 placements of an @ignore comment (before package clause, alone before func / type declaration, alone before a multi-line statement, alone before a struct field, alone before a local var declaration, trailing a statement, trailing an if-header, last in a body, trailing a struct field), any <= 2 of them active; query = ANY byte position of the file x 7 codes: Contains == documented extent", Bounds: map[string]interface{}{"skeleton": "c07Src", "placements": 13, "active_markers": "<= 2", "query_position": "every offset 0..len+2 (symbolic)"}},
				{Harness: "zzverif/zzh.ZZC07Scopes3", Tier: "thorough", Desc: "the same with any three placements active at a time", Bounds: map[string]interface{}{"active_markers": "<= 3"}},
				{Harness: "zzverif/zzh.ZZC07Spellings", Desc: "declaration placement with 9 code-list spellings (single, several + prose, category, ALL lower-case, unknown + trailing comma, other category, near-miss keywords)", Bounds: map[string]interface{}{"spellings": 9}},
				{Harness: "zzverif/zzh.ZZC07SpellingsStmt", Desc: "statement placement with the 9 spellings", Bounds: map[string]interface{}{"spellings": 9}},
				{Harness: "zzverif/zzh.ZZC07RereportField", Desc: "re-reporting when the first uses of the once-per-file type are a struct field and a parameter (trailing markers, 4x3 spellings)", Bounds: map[string]interface{}{"holes": 2}},
				{Harness: "zzverif/zzh.ZZC07Rereport", Desc: "report-time filter (IMM) and detection-time filter with once-per-file re-reporting (TONL01, PKGO01 move to the next unsuppressed use of 3), trailing and stand-alone markers, 5x4x4x4 marker spellings", Bounds: map[string]interface{}{"skeleton": "c07SrcRD + c07SrcRU", "holes": 4}},
				{Harness: "zzverif/zzh.ZZC07Header", Desc: "file-level markers that are not the package clause's own doc: detached by a blank line + package doc, followed by a //go:build constraint, middle line of a detached header group; 10 spellings; query position = any byte offset x 7 codes: covers exactly the whole file", Bounds: map[string]interface{}{"header_shapes": 3, "spellings": 10}},
				{Harness: "zzverif/zzh.ZZC07FuncLine", Desc: "a marker trailing the 'func' line of a multi-line function (category, ALL, specific codes) covers that line only: TONL01/02/03 in the body and after it stay", Bounds: map[string]interface{}{"spellings": 5}},
				{Harness: "zzverif/zzh.ZZC07AfterBlockComment", Desc: "a marker appended to a line that already ends in one or two general /* */ comments (one comment group of two or three comments), on a var spec and on statements: it covers its own line only; annotation over 3 spellings, marker over 4", Bounds: map[string]interface{}{"sites": 3, "annotation_spellings": 3, "marker_spellings": 4}},
			},
			Outside:     []string{"more than two markers in one file at a time (placement harness)", "block comments /* @ignore */", "markers inside excluded files (C14)"},
			Assumptions: []string{"extents of declarations/statements/lines are computed by the harness from landmarks in the skeleton source, not from the code under test"},
		},
		Prop{
			ID: "C08",
			Runs: []Run{
				{Harness: "zzverif/zzh.ZZC08Text", Desc: "exclude-checks as raw text (any case/blanks/empty items): ReadIgnoreAnnotations + IgnoreSet.Contains drop code c at any position iff an item names ALL, c's category or c", Bounds: map[string]interface{}{"text_bytes": 9, "commas": 2, "codes": 7}},
				{Harness: "zzverif/zzh.ZZC08AllCheckers3", Tier: "thorough", Desc: "the same with up to three tokens", Bounds: map[string]interface{}{"tokens": "0..3 of 14"}},
				{Harness: "zzverif/zzh.ZZC08AllCheckers", Desc: "two-package program producing all 13 IMM/CTOR/TONL/PKGO codes (15 diagnostics, one unrelated @ignore marker in the middle); exclude-checks = 0..2 tokens from {ALL, 5 categories, 6 codes, junk, prefix look-alike}: reported set == unrestricted set minus matching codes, for report-time (IMM, CTOR) and detection-time (TONL, PKGO) filters alike", Bounds: map[string]interface{}{"tokens": "0..2 of 14", "program": "allSrcD + allSrcU"}},
			},
			Outside:     []string{"flag/env plumbing of the value (C18)", "IMPL codes in the L1 harness (covered by the text harness and C05)", "more than two tokens at once in the L1 harness"},
			Assumptions: []string{"as C01-C04"},
		},
		Prop{
			ID: "C14",
			Runs: []Run{
				{Harness: "config.ZZC14Skip", Desc: "file filter kernel for ARBITRARY strings: file name (<= 14 bytes), 0..2 exclude-path entries (1..4 bytes each), scan-tests: skipped iff the name contains an entry or (scan-tests off and the name ends in _test.go)", Bounds: map[string]interface{}{"name_bytes": 14, "entries": "0..2 x 1..4 bytes"}},
				{Harness: "zzverif/zzh.ZZC14Files", Desc: "package of two files; the second file's name (regular, _test.go, testdata/, gen/, look-alikes), scan-tests, exclude-paths (4 settings) and a file-level @ignore inside it are symbolic; it declares an @immutable type and a @testonly function used by the first file and contains violations itself", Bounds: map[string]interface{}{"file_names": 6, "exclude_paths": 4, "scan_tests": "symbolic"}},
			},
			Outside:     []string{"external test packages (package d_test) as separate passes", "arbitrary exclude-path strings (4 fixed settings incl. empty list and a prefix look-alike)"},
			Assumptions: []string{"file names reach the code only through token.FileSet.Position (host strings replaced by the symbolic name)"},
		},
	)
}

func init() {
	props = append(props,
		Prop{
			ID: "C13",
			Runs: []Run{
				{Harness: "zzverif/zzh.ZZC13Spelling", Desc: "the same nine statements (field write, ++, write through pointer parameter, T{}, &T{}, new(T), var v T, method call, signature) in five files of package u that spell the type directly, through a renamed import, parenthesised, through a local alias (incl. alias of the pointer type) and through an alias declared in a third package; annotation kind on the type symbolic (@immutable/@constructor/@testonly/@packageonly/none): every file gets the same codes on the same lines", Bounds: map[string]interface{}{"spellings": 5, "annotation_kinds": 5, "statements": 9}},
				{Harness: "zzverif/zzh.ZZC01Edge", Desc: "receiver spellings and alias spellings of the written value (alias of the pointer type, alias of an alias; all four write forms): a method declared with an alias-spelled receiver (constructor exemption, receiver overwrite) gets the verdicts of the directly spelled one; writes through a defined pointer type vs the explicit dereference; promoted vs explicit field paths", Bounds: map[string]interface{}{"skeleton": "c01SrcEdge"}},
				{Harness: "zzverif/zzh.ZZC02Forms", Desc: "instantiation forms where the annotated type is reached through an alias or a named collection type, incl. elided elements of []*Alias / map[K]*Alias (same run as under C02)", Bounds: map[string]interface{}{"skeleton": "c02SrcF1+F2", "sites": 25, "list_spellings": 4}},
			},
			Outside:     []string{"generic aliases; dot-imports; @implements through aliases (C05); aliases of aliases other than for field writes"},
			Assumptions: []string{"as C01-C04; a local alias declaration is itself a reference to the type (PKGO01's first use in that file)"},
		},
	)
}

func init() {
	props = append(props,
		Prop{
			ID: "C12",
			Runs: []Run{
				{Harness: "zzverif/zzh.ZZC12Gofmt", Desc: "two writes that an unformatted source keeps on one physical line (if/else on one line; two statements separated by ';') are reported as often as after gofmt has split the lines", Bounds: map[string]interface{}{"holes": 1}},
				{Harness: "zzverif/zzh.ZZC12TrailingNote", Desc: "an ordinary comment added behind a closing brace (of a composite literal in a var group; of an if block) whose last inner line is a stand-alone @ignore marker or an ordinary comment: the same number of diagnostics on each of four tagged lines with and without the remark; type annotation over 3 spellings, marker over 4", Bounds: map[string]interface{}{"programs": 2, "annotation_spellings": 3, "marker_spellings": 4}},
				{Harness: "zzverif/zzh.ZZC12Layout", Desc: "the same six declarations (annotated type, constructor, user function, package-level initialiser, method with receiver overwrite and a shadowing local, @testonly function) in five layouts: canonical, reversed order, split over two files with blank lines / line and block comments inserted, files in another order, locals and receiver consistently renamed; annotations symbolic; 10 statement tags x 4 codes compared", Bounds: map[string]interface{}{"layouts": 7, "holes": 3, "statement_tags": 10}},
				{Harness: "zzverif/zzh.ZZC12GroupDoc", Desc: "an annotated type ( ... ) group whose second member gets an ordinary comment, a keyword-mentioning comment, its own annotation or nothing above it: the writes to both members keep their verdicts", Bounds: map[string]interface{}{"holes": 2}},
				{Harness: "zzverif/zzh.ZZC02Local", Desc: "consistent renaming of a local: a local function value named new vs the same function named mk, both called with a *T: same (empty) verdict", Bounds: map[string]interface{}{"skeleton": "c02SrcLocal"}},
			},
			Outside:     []string{"gofmt reformatting other than blank lines/comments and the two line-split cases of ZZC12Gofmt", "TONL01/PKGO01 once-per-file placement under reordering (the using package and type are compared in C03/C04, not here)", "compositions of more than the listed transformations"},
			Assumptions: []string{"as C01-C03"},
		},
		Prop{
			ID: "C17",
			Runs: []Run{
				{Harness: "zzverif/zzh.ZZC07AfterBlockComment", Desc: "appending the marker to a diagnostic line that already ends in a general comment removes exactly that line's diagnostic (same run as under C07)", Bounds: map[string]interface{}{"sites": 3, "annotation_spellings": 3, "marker_spellings": 4}},
				{Harness: "reporting.ZZC17Report", Desc: "the single reporter for an arbitrary violation (16 documented codes + unknown, any 4-byte message, any position), one marker (8 tokens, any range) and one global token (5): Report is called iff the violation's OWN code is not suppressed at its OWN position, at that position, with a message starting error: [that code]", Bounds: map[string]interface{}{"codes": 17, "marker_tokens": 8, "global_tokens": 5, "range": "[1,2^31)"}},
				{Harness: "zzverif/zzh.ZZC17WellFormed", Desc: "all-codes program, one analyzer at a time, with readable sources: [CODE] prefix with a documented code of the analyzer's category, no second code, located in the analysed package's file on the offending line, excerpt shows that line, help link = category page (frozen table). Concrete program: this harness is executed by the interpreter and natively, no symbolic input", Bounds: map[string]interface{}{"program": "allSrcD + allSrcU", "codes": 13}},
				{Harness: "zzverif/zzh.ZZC17Inline3", Tier: "thorough", Desc: "inline markers on any three lines at a time", Bounds: map[string]interface{}{"markers": "<= 3 of 15"}},
				{Harness: "zzverif/zzh.ZZC17Inline", Desc: "inline '// @ignore CODE' with the displayed code on any <= 2 of the 15 diagnostic lines (incl. a continuation line of a multi-line call and the last line of the file): exactly those diagnostics disappear", Bounds: map[string]interface{}{"markers": "<= 2 of 15"}},
			},
			Outside:     []string{"process exit status and -json rendering (x/tools multichecker)", "IMPL codes (see C05)", "real-world corpora"},
			Assumptions: []string{"as C01-C04"},
		},
		Prop{
			ID: "C09",
			Runs: []Run{
				{Harness: "zzverif/zzh.ZZC09Poisoned", PoisonOptional: true, Desc: "(c) every checker with empty local annotations and empty-or-absent imported facts returns no violation under symbolic configuration, with pass.Files / TypesInfo / Fset poisoned (any read aborts): no bound on the analysed program", Bounds: map[string]interface{}{"program": "unbounded (never read)", "imports": 2}},
				{Harness: "zzverif/zzh.ZZC09Placement", Desc: "(b') VALID annotation lines (5 keywords) at placements that are not doc comments of top-level declarations: trailing comment of a type without doc (multi-line and one-line), a quoted example inside a block-comment doc, doc of a local type, comment in a body, doc of a var, doc of a type local to a function literal in a package-level initialiser that shadows a package-level type; any two at a time; the program mutates/instantiates/uses those types: no annotation, no diagnostic", Bounds: map[string]interface{}{"placements": 7, "non_plain": "<= 2"}},
				{Harness: "zzverif/zzh.ZZC09Corpus", Desc: "(b) six skeleton programs of C01-C04 with every annotation comment replaced by a near-miss (8 kinds, two independent choices): no annotation, no marker, no diagnostic", Bounds: map[string]interface{}{"programs": 6, "near_miss_kinds": 8}},
			},
			Post: func(c *checkCtx) {
				langInclusion(c, "annotations.ZZC15Regexes", "annotations.ZZC09Prefix", map[string]string{"implements": "implements", "constructor": "constructor", "immutable": "immutable", "testonly": "testonly", "mutable": "mutable", "packageonly": "packageonly"})
				langInclusion(c, "ignore.ZZC15IgnoreRegex", "ignore.ZZC09Prefix", map[string]string{"ignore": "ignore"})
			},
			Outside:     []string{"real-world corpora (std, x/tools): not a solver task", "the induction over the import DAG (facts of unannotated dependencies are empty by (b), checkers are silent on empty facts by (c)) is argued, not mechanised", "@implements checker with no annotations returns before loading anything (covered in C05)"},
			Assumptions: []string{"(a) unbounded RegLan inclusion: every text accepted by a recogniser has the anchored lowercase '// @keyword' + (end|blank) prefix form, ASCII"},
		},
	)
}

func init() {
	props = append(props,
		Prop{
			ID: "C05",
			Runs: []Run{
				{Harness: "zzverif/zzh.ZZC05Zoo", Desc: "three-package zoo (interfaces with []byte, variadic vs slice, pointer depth, alias-typed and named parameters, func and map parameters, embedded interface, empty interface, a non-interface; types with value/pointer receivers and promotion through an embedded pointer); 20 annotation spellings (value/pointer contract; unqualified, package name, explicit alias, declared name != path element, path element, unknown package, unknown interface, current package's own name) on any one of 7 types: the code reported at the type equals the verdict computed with go/types (import bindings, Scope.Lookup, types.Implements)", Bounds: map[string]interface{}{"types": 9, "spellings": 24, "annotated_types_at_a_time": 1, "files": 2}},
				{Harness: "zzverif/zzh.ZZC05Pairs", Desc: "TWO annotation lines on one type plus one on a second type at the same time (10 spellings each, incl. same-named interfaces of different packages ifs.Reader / yaml.Reader / Local, value and pointer contracts, unknown package / interface): the number of diagnostics of each code on each type equals the number of its lines with that go/types verdict", Bounds: map[string]interface{}{"annotation_lines": 3, "spellings": 10, "identical_spelling_twice_on_one_type": "outside"}},
			},
			Outside:     []string{"type shapes not in the zoo (channels, generic types, unexported methods across packages, nested aliases inside composite types)", "the list of methods printed by IMPL03 (only the verdict is compared)", "several annotated types in one package at a time"},
			Assumptions: []string{"the oracle is go/types itself, called as host code on the type-checked skeleton", "as C01-C04"},
		},
	)
}

func mapOrders(ex *eng.Explorer, tier string) { ex.MapOrders = true; ex.MapOrderMax = 3 }

func init() {
	props = append(props,
		Prop{
			ID: "C10",
			Runs: []Run{
				{Harness: "zzverif/zzh.ZZC10Stress1", Desc: "two packages full of constructs the checkers do not specialise for (generic types/functions, func/array/interface/anonymous-struct types, embedded fields, unnamed and blank receivers, labels, method expressions and values, type switches, double pointers, map/slice element selectors, universe-type methods, package-level initialiser); ANY of 10 comment spellings (6 keywords, @ignore ALL, unknown qualifier...) on any one of 10 declarations; all five analyzers on both packages: every path ends normally", Bounds: map[string]interface{}{"declarations": 10, "annotated_at_a_time": 1, "spellings": 10}},
				{Harness: "zzverif/zzh.ZZC10StressImm", Desc: "the same with the struct S fixed @immutable and any one other declaration (its embedded field, methods, generic function, imported package) carrying any spelling", Bounds: map[string]interface{}{"declarations": 11, "annotated_at_a_time": "S + 1"}},
				{Harness: "zzverif/zzh.ZZC10Stress2", Tier: "thorough", Desc: "the same with any two declarations annotated", Bounds: map[string]interface{}{"annotated_at_a_time": 2}},
				{Harness: "zzverif/zzh.ZZC01Init", Desc: "package-level initialisers before any function (the nil-dereference fixed in b62e6d5)", Bounds: map[string]interface{}{}},
				{Harness: "zzverif/zzh.ZZC10Lines", Desc: "generated-code shapes: //line directives (line beyond the physical file, other file name, /*line f:l:c*/ form), trailing / free-standing / in-function comments, locally shadowed builtins called without arguments (new, make, len), a violation on the last line of a file without final newline; readable sources so that excerpt rendering runs; ANY of 6 spellings in any two of 9 comments (the LineStart panic fixed in 946698e)", Bounds: map[string]interface{}{"comments": 9, "annotated_at_a_time": 2, "spellings": 6}},
			},
			Outside:     []string{"any compilable package beyond the listed skeletons (real-world corpora are not a solver task)", "wall-clock hangs inside the x/tools drivers", "cgo"},
			Assumptions: []string{"no-panic, in-range indexing, successful type assertions, no nil-map writes and the unwinding assertions are implicit assertions on EVERY path of EVERY harness of every property; this check adds programs built to provoke them"},
		},
		Prop{
			ID: "C06",
			Runs: []Run{
				{Harness: "analyzer.ZZC06Export", Desc: "each of the five run*Checker functions with arbitrary local annotations (every list empty or not, package-not-found flag): ExportPackageFact is called exactly once on every path, with the package's annotations, before any early return", Bounds: map[string]interface{}{"checkers": 5, "annotation_lists": "2^6 presence combinations"}},
				{Harness: "analyzer.ZZC06Reader", Desc: "runAnnotationReader exports what it read; allow-lists travel complete and in order", Bounds: map[string]interface{}{"spellings": 4}},
				{Harness: "zzverif/zzh.ZZC06Merge", Desc: "importer with 5 direct imports, any subset of which exports a fact (two of the facts carry annotations with arbitrary names): all six indices = local annotations + facts of the direct imports, filed under the declaring package's path", Bounds: map[string]interface{}{"imports": 5, "fact_subsets": "2^5", "names": "opaque atoms"}},
				{Harness: "zzverif/zzh.ZZC06FactPos", Desc: "positions recorded inside facts mean nothing to an importer (every driver process has its own file set): two template-identical packages (annotations at the same byte offsets: @immutable, @constructor, @mutable field, @testonly, @packageonly) and an importer of both; its diagnostics with the in-process facts equal those with facts whose positions are all collapsed to one ARBITRARY value", Bounds: map[string]interface{}{"collapsed_pos": "[0,2^20]"}},
				{Harness: "zzverif/zzh.ZZCrossImmCtor", Desc: "annotations of d (incl. @mutable fields, constructor lists) take effect in the importer u as in d", Bounds: map[string]interface{}{}},
				{Harness: "zzverif/zzh.ZZC04Cross", Desc: "allow-lists take effect in the importer", Bounds: map[string]interface{}{}},
			},
			Outside: []string{"identity of results between the standalone binary, go vet -vettool and in-process drivers; gob serialisation of facts to disk; independence from the set of packages named on the command line — properties of x/tools' drivers, separate processes and files on disk, not encodable here",
				"import DAGs deeper than the direct-import step (each step is the same code)"},
			Assumptions: []string{"facts are passed in-process by the harness' ImportPackageFact (no gob)"},
		},
		Prop{
			ID: "C11",
			Runs: []Run{
				{Harness: "analyzer.ZZC11Config", GlobalWriteMonitor: true, Desc: "two package actions in either order (plus a repeat) obtain the same configuration object = resolution of the flags; the cache is written only inside sync.Once", Bounds: map[string]interface{}{"actions": 3, "orders": 2, "flag_values": "2x3"}},
				{Harness: "analyzer.ZZC06Export", GlobalWriteMonitor: true, Desc: "shared-state monitor over all five run*Checker functions: no store to package-level state (or to objects allocated by package initialisers) outside sync.Once / a held lock", Bounds: map[string]interface{}{}},
				{Harness: "zzverif/zzh.ZZC08AllCheckers", GlobalWriteMonitor: true, Setup: mapOrders, Desc: "all checkers on the all-codes program with EVERY iteration order of every native map of <=3 entries explored as nondeterminism: the diagnostics (position, code) are the same under every order; shared-state monitor on", Bounds: map[string]interface{}{"map_orders": "all permutations of maps with <= 3 entries (larger maps: one order)"}},
				{Harness: "zzverif/zzh.ZZC11Messages", GlobalWriteMonitor: true, Setup: mapOrders, Desc: "TEXT of PKGO01/PKGO02 for allow-lists with repeated entries over two annotation lines, under every iteration order of every native map with <= 3 entries: the allowed packages are listed in written order", Bounds: map[string]interface{}{"spellings": "3 x 2 x 2"}},
				{Harness: "zzverif/zzh.ZZC11Commute", GlobalWriteMonitor: true, Desc: "two package actions with look-alike inputs (same-named packages and interfaces at different import paths) run in either order in one process: each package's diagnostics are those of analysing it alone (catches process-wide caches with colliding keys)", Bounds: map[string]interface{}{"orders": 2}},
				{Harness: "zzverif/zzh.ZZC11FileOrder", Desc: "the two files of a package handed to the analyzers in either order (go/packages parses them concurrently, so Pass.Files need not follow the FileSet): one file ends with the constructor, the other begins with a package-level initialiser that writes a field; same IMM01 verdicts in both orders", Bounds: map[string]interface{}{"files": 2, "orders": 2, "annotation_spellings": 2}},
				{Harness: "zzverif/zzh.ZZC01Basic", GlobalWriteMonitor: true, Desc: "shared-state monitor over reading and checking a package with @immutable structs whose fields carry doc comments (@mutable), a type group, every write form: no store to package-level state outside sync.Once / a held lock (field-annotation reading has its own use of the shared keyword matcher)", Bounds: map[string]interface{}{"skeleton": "c01SrcD"}},
				{Harness: "zzverif/zzh.ZZC04Cross", GlobalWriteMonitor: true, Setup: mapOrders, Tier: "thorough", Desc: "packageonly index and allow-lists under all map iteration orders", Bounds: map[string]interface{}{}},
			},
			Outside: []string{"real goroutine interleavings inside the drivers and race-detector runs; data races in x/tools itself: not encodable (the claim decided here is: no shared mutable state besides the once-initialised configuration, and results independent of map iteration order; by sync.Once's happens-before guarantee whole-package actions then commute)",
				"iteration order of maps with more than 3 entries", "byte comparison of message texts across orders (positions and codes are compared)"},
			Assumptions: []string{"regexp.Regexp and the Aho-Corasick matchers (only Contains is used) are safe for concurrent readers", "sync.Once.Do / Mutex modelled as run-once / critical section"},
		},
	)
}

var _ = eng.RepoMod
