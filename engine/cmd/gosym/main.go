package main

import (
	"encoding/json"
	"fmt"
	"os"
	"strings"
	"time"

	"verif/gosym/eng"
)

func main() {
	if len(os.Args) < 2 {
		fmt.Fprintln(os.Stderr, "usage: gosym run <func> | check <id> [quick|thorough]")
		os.Exit(2)
	}
	switch os.Args[1] {
	case "check":
		tier := os.Getenv("VERIF_TIER")
		if len(os.Args) > 3 {
			tier = os.Args[3]
		}
		if tier == "" {
			tier = "quick"
		}
		os.Exit(runCheck(os.Args[2], tier))
	case "run":
		repo := os.Getenv("VERIF_REPO")
		if repo == "" {
			repo = "/repo"
		}
		t0 := time.Now()
		p, err := eng.Load(repo, "/verif/harness")
		if err != nil {
			fmt.Fprintln(os.Stderr, err)
			os.Exit(2)
		}
		fmt.Fprintf(os.Stderr, "loaded in %.1fs\n", time.Since(t0).Seconds())
		ex := eng.NewExplorer(p, os.Args[2])
		if w := os.Getenv("GOSYM_MAXVIOL"); w != "" {
			fmt.Sscan(w, &ex.MaxViolations)
		}
		if w := os.Getenv("GOSYM_WORKERS"); w != "" {
			fmt.Sscan(w, &ex.Workers)
		}
		for _, k := range os.Args[3:] {
			if strings.HasPrefix(k, "redirect:") {
				parts := strings.SplitN(strings.TrimPrefix(k, "redirect:"), "=", 2)
				if ex.Redirects == nil {
					ex.Redirects = map[string]string{}
				}
				ex.Redirects[parts[0]] = parts[1]
				continue
			}
			if k == "noifconv" {
				ex.NoIfConv = true
				continue
			}
			ex.Known[k] = true
		}
		if err := ex.Run(); err != nil {
			fmt.Fprintln(os.Stderr, err)
			os.Exit(2)
		}
		out := map[string]interface{}{
			"paths": ex.Paths, "assume_end": ex.PathsAssumeEnd, "violations": ex.Violations, "known": ex.KnownHits,
			"inconclusive": ex.Inconclusive, "queries": ex.Queries, "sat": ex.QSat, "unsat": ex.QUnsat, "unknown": ex.QUnknown,
			"ifconv": ex.IfConv, "forks": ex.Forks, "solver_s": ex.SolverTime.Seconds(), "wall_s": ex.Wall.Seconds(), "asserts": ex.AssertsReached, "funcs": ex.SortedFuncs(),
			"lazy_globals": ex.LazyGlobals, "host_calls": ex.HostCalls, "samples": len(ex.Samples), "oblig": ex.ObligChecked, "steps": ex.Steps,
		}
		b, _ := json.MarshalIndent(out, "", " ")
		fmt.Println(string(b))
	}
}
