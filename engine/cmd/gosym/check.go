package main

import (
	"encoding/json"
	"fmt"
	"go/constant"
	"os"
	"path/filepath"
	"sort"
	"strconv"
	"strings"
	"time"

	"golang.org/x/tools/go/ssa"

	"verif/gosym/eng"
)

const verifDir = "/verif"

type Run struct {
	Harness            string // relative to RepoMod/src/, e.g. "reporting.ZZC19K1"
	Desc               string
	Bounds             map[string]interface{}
	Tier               string // "" = both tiers; "thorough" = thorough only; "quick" = quick only
	Setup              func(ex *eng.Explorer, tier string)
	GlobalWriteMonitor bool // stores to package-level state (outside sync.Once / a held mutex) by code of the repository are violations (C11)
	PoisonOptional     bool // an inconclusive result that is only due to reads of poisoned memory is downgraded to a note (a companion run carries the bounded claim)
}

type Prop struct {
	ID          string
	Runs        []Run
	Outside     []string
	Assumptions []string
	Post        func(c *checkCtx) // extra (e.g. unbounded RegLan queries)
}

type knownFinding struct {
	Property string `json:"property"`
	Key      string `json:"key"`
	Status   string `json:"status"` // known | fixed
	What     string `json:"what"`
	Commit   string `json:"commit,omitempty"`
}

type runReport struct {
	Harness      string                 `json:"harness"`
	Desc         string                 `json:"desc"`
	Bounds       map[string]interface{} `json:"bounds"`
	Paths        int                    `json:"feasible_paths"`
	AssumeEnded  int                    `json:"paths_ended_by_assume"`
	Asserts      map[string]int         `json:"assert_sites_reached"`
	AssertChecks int                    `json:"assertion_queries"`
	Decisions    int                    `json:"symbolic_decisions"`
	MaxDepth     int                    `json:"max_decisions_on_a_path"`
	Queries      map[string]int         `json:"queries"`
	SolverS      float64                `json:"solver_time_s"`
	WallS        float64                `json:"wall_s"`
	Funcs        []string               `json:"functions_encoded"`
	HostCalls    map[string]int         `json:"host_calls"`
	Stubs        []string               `json:"stubs"`
	LazyGlobals  []string               `json:"zero_initialised_foreign_globals_touched"`
	Regexes      map[string]int         `json:"regex_programs,omitempty"`
	Obligations  int                    `json:"no_wrap_obligations_discharged"`
	Steps        int64                  `json:"ssa_instructions_executed"`
	OrderForks   int                    `json:"map_iteration_order_forks"`
	GlobalWrites map[string]int         `json:"package_level_writes_outside_once,omitempty"`
	CrossChecked int                    `json:"queries_cross_checked_cvc5,omitempty"`
	Violations   int                    `json:"violations"`
	KnownHits    map[string]int         `json:"known_finding_hits,omitempty"`
	Inconclusive []string               `json:"inconclusive,omitempty"`
}

type checkCtx struct {
	prop         *Prop
	tier         string
	seed         int
	prog         *eng.Program
	known        []knownFinding
	reports      []runReport
	viol         []eng.Violation
	knownHit     map[string][]eng.Violation
	samples      []eng.ReplayCase
	incon        []string
	notes        []string
	extraObl     int
	extraDis     int
	extraSamples []interface{}
	extraSolverS float64
	validated    int
	monitored    int
	monitorViol  []string
	violTotal    int
	expected     map[string]bool
	reached      map[string]int
	confirmed    int
}

func fullName(h string) string { return eng.RepoMod + "/src/" + h }

func loadKnown() []knownFinding {
	b, err := os.ReadFile(filepath.Join(verifDir, "known_findings.json"))
	if err != nil {
		return nil
	}
	var f struct {
		Findings []knownFinding `json:"findings"`
	}
	if err := json.Unmarshal(b, &f); err != nil {
		fmt.Fprintln(os.Stderr, "known_findings.json:", err)
		os.Exit(2)
	}
	return f.Findings
}

// expectedAsserts: constant messages of nd.Assert calls (and nd.Reach tags) in the harness function, its closures,
// and same-package ZZ/zz helper functions it calls.
func expectedAsserts(p *eng.Program, fn *ssa.Function, seen map[*ssa.Function]bool, out map[string]bool) {
	if fn == nil || seen[fn] || fn.Blocks == nil {
		return
	}
	seen[fn] = true
	for _, b := range fn.Blocks {
		for _, ins := range b.Instrs {
			if mc, ok := ins.(*ssa.MakeClosure); ok {
				expectedAsserts(p, mc.Fn.(*ssa.Function), seen, out)
			}
			c, ok := ins.(ssa.CallInstruction)
			if !ok {
				continue
			}
			callee := c.Common().StaticCallee()
			if callee == nil {
				continue
			}
			name := callee.String()
			if strings.HasSuffix(name, "/zzverif/nd.Assert") {
				if k, ok := c.Common().Args[1].(*ssa.Const); ok && k.Value != nil {
					out[constant.StringVal(k.Value)] = true
				}
			} else if strings.HasSuffix(name, "/zzverif/nd.Reach") {
				if k, ok := c.Common().Args[0].(*ssa.Const); ok && k.Value != nil {
					out["reach:"+constant.StringVal(k.Value)] = true
				}
			} else if callee.Pkg == fn.Pkg && (strings.HasPrefix(callee.Name(), "zz") || strings.HasPrefix(callee.Name(), "ZZ")) {
				expectedAsserts(p, callee, seen, out)
			}
		}
	}
}

func runCheck(id, tier string) int {
	t0 := time.Now()
	prop := findProp(id)
	if prop == nil {
		fmt.Fprintf(os.Stderr, "unknown property %s\n", id)
		return 2
	}
	seed := 0
	if s := os.Getenv("VERIF_SEED"); s != "" {
		seed, _ = strconv.Atoi(s)
	}
	repo := os.Getenv("VERIF_REPO")
	if repo == "" {
		repo = "/repo"
	}
	prog, err := eng.Load(repo, filepath.Join(verifDir, "harness"))
	if err != nil {
		fmt.Fprintf(os.Stderr, "INCONCLUSIVE property=%s: %v\n", id, err)
		writeEvidence(&checkCtx{prop: prop, tier: tier, seed: seed, incon: []string{err.Error()}}, time.Since(t0), 2)
		return 2
	}
	c := &checkCtx{prop: prop, tier: tier, seed: seed, prog: prog, known: loadKnown(), knownHit: map[string][]eng.Violation{}, expected: map[string]bool{}, reached: map[string]int{}}
	activeKnown := map[string]knownFinding{}
	for _, k := range c.known {
		if k.Property == id && k.Status == "known" {
			activeKnown[k.Key] = k
		}
	}
	for _, r := range prop.Runs {
		if r.Tier != "" && r.Tier != tier {
			continue
		}
		full := fullName(r.Harness)
		fn := prog.Funcs[full]
		if fn == nil {
			msg := "harness not found: " + full
			for f, e := range prog.DroppedHarness {
				msg += "; harness file " + f + " does not compile against this tree (" + e + ")"
			}
			c.incon = append(c.incon, msg)
			continue
		}
		ex := eng.NewExplorer(prog, full)
		ex.Workers = 14
		if w := os.Getenv("GOSYM_WORKERS"); w != "" {
			ex.Workers, _ = strconv.Atoi(w)
		}
		ex.Seed = seed
		// every run ends: a harness that does not finish within its budget is INCONCLUSIVE, never "held"
		ex.WallBudget = 10 * time.Minute
		if tier == "thorough" {
			ex.CrossCheck = true
			ex.WallBudget = 60 * time.Minute
		}
		if b := os.Getenv("GOSYM_WALL_S"); b != "" {
			if n, err := strconv.Atoi(b); err == nil {
				ex.WallBudget = time.Duration(n) * time.Second
			}
		}
		for k := range activeKnown {
			ex.Known[k] = true
		}
		if r.Setup != nil {
			r.Setup(ex, tier)
		}
		fmt.Fprintf(os.Stderr, "[%s] exploring %s ...\n", id, r.Harness)
		if err := ex.Run(); err != nil {
			c.incon = append(c.incon, err.Error())
		}
		rep := runReport{Harness: r.Harness, Desc: r.Desc, Bounds: r.Bounds, Paths: ex.Paths, AssumeEnded: ex.PathsAssumeEnd, Asserts: ex.AssertsReached,
			AssertChecks: ex.AssertsChecked, Decisions: ex.Decisions, MaxDepth: ex.MaxDepth,
			Queries: map[string]int{"total": ex.Queries, "sat": ex.QSat, "unsat": ex.QUnsat, "unknown": ex.QUnknown},
			SolverS: ex.SolverTime.Seconds(), WallS: ex.Wall.Seconds(), Funcs: ex.SortedFuncs(), HostCalls: ex.HostCalls, Regexes: ex.Regexes,
			Obligations: ex.ObligChecked, Steps: ex.Steps, OrderForks: ex.OrderVars, GlobalWrites: ex.GlobalWrites, CrossChecked: ex.CrossChecked,
			Violations: len(ex.Violations), Inconclusive: ex.Inconclusive}
		for s := range ex.StubsUsed {
			rep.Stubs = append(rep.Stubs, s)
		}
		sort.Strings(rep.Stubs)
		for g := range ex.LazyGlobals {
			rep.LazyGlobals = append(rep.LazyGlobals, g)
		}
		sort.Strings(rep.LazyGlobals)
		if len(ex.KnownHits) > 0 {
			rep.KnownHits = map[string]int{}
			for k, v := range ex.KnownHits {
				rep.KnownHits[k] = len(v)
				c.knownHit[k] = append(c.knownHit[k], v...)
			}
		}
		// vacuity: every assert site of the harness must have been reached on a feasible path
		exp := map[string]bool{}
		expectedAsserts(prog, fn, map[*ssa.Function]bool{}, exp)
		for m, n := range ex.AssertsReached {
			c.reached[m] += n
		}
		if ex.Paths-ex.PathsAssumeEnd == 0 && len(ex.Inconclusive) == 0 {
			rep.Inconclusive = append(rep.Inconclusive, "vacuity: no feasible path reached the end of harness "+r.Harness)
		}
		if ex.FallbackQueries > 0 {
			c.notes = append(c.notes, fmt.Sprintf("%s: %d assertion queries went to the fallback solver (cvc5), %d decided there", r.Harness, ex.FallbackQueries, ex.FallbackDecided))
		}
		if ex.QUnknown > 0 && ex.UnknownFeas > 0 {
			c.notes = append(c.notes, fmt.Sprintf("%s: %d feasibility queries answered unknown (paths kept)", r.Harness, ex.UnknownFeas))
		}
		if r.PoisonOptional && len(rep.Inconclusive) > 0 {
			onlyPoison := true
			for _, m := range rep.Inconclusive {
				if !strings.Contains(m, "poison") {
					onlyPoison = false
				}
			}
			if onlyPoison {
				c.notes = append(c.notes, r.Harness+": the code under test now reads files even without annotations; the unbounded 'looks at no file' argument does not apply, the bounded companion harness carries the claim")
				rep.Inconclusive = nil
				exp = map[string]bool{}
			}
		}
		if r.GlobalWriteMonitor {
			var bad []string
			for w := range ex.GlobalWrites {
				i := strings.Index(w, " written by ")
				writer := w[i+12:]
				if strings.Contains(writer, "/zzverif/") || strings.Contains(writer, ".ZZ") || strings.Contains(writer, ".zz") || !strings.Contains(writer, eng.RepoMod) {
					continue // stores made by the harness itself or by library code it drives
				}
				bad = append(bad, w)
			}
			sort.Strings(bad)
			c.monitored++
			if len(bad) > 0 {
				dir := filepath.Join(verifDir, "replays", c.prop.ID, "shared-state-"+eng.ModelHash(bad))
				os.MkdirAll(dir, 0755)
				os.WriteFile(filepath.Join(dir, "monitor.txt"), []byte("stores to package-level state outside sync.Once / a held lock, observed while interpreting the repository's SSA under harness "+r.Harness+":\n"+strings.Join(bad, "\n")+"\n"), 0644)
				os.WriteFile(filepath.Join(dir, "run.sh"), []byte("#!/bin/sh\ncat \"$(dirname \"$0\")/monitor.txt\"\n"), 0755)
				c.monitorViol = append(c.monitorViol, fmt.Sprintf("VIOLATION property=%s replay=%s  # unsynchronised write to shared package-level state: %s", c.prop.ID, dir, strings.Join(bad, "; ")))
			}
		}
		c.incon = append(c.incon, rep.Inconclusive...)
		for m := range exp {
			c.expected[m] = true
		}
		c.viol = append(c.viol, ex.Violations...)
		// translator validation vectors
		nS := 6
		if tier == "thorough" {
			nS = 16
		}
		step := 1
		if len(ex.Samples) > nS {
			step = len(ex.Samples) / nS
		}
		for i := 0; i < len(ex.Samples) && len(c.samples) < 400; i += step {
			s := ex.Samples[(i+seed)%len(ex.Samples)]
			c.samples = append(c.samples, eng.ReplayCase{Harness: full, Model: s.Model, Observed: s.Observed})
		}
		c.reports = append(c.reports, rep)
	}
	// vacuity (reachability twins): every assert site of the property's harnesses must be reached on a feasible path of some run
	var missing []string
	for m := range c.expected {
		if c.reached[m] == 0 {
			missing = append(missing, m)
		}
	}
	sort.Strings(missing)
	if len(missing) > 0 && len(c.viol) == 0 && len(c.incon) == 0 {
		c.incon = append(c.incon, "vacuity: assert sites never reached on a feasible path: "+strings.Join(missing, " | "))
	}
	if prop.Post != nil {
		prop.Post(c)
	}
	return finish(c, activeKnown, t0)
}

func finish(c *checkCtx, activeKnown map[string]knownFinding, t0 time.Time) int {
	id := c.prop.ID
	exit := 0
	var lines []string
	// 1. replay violations
	confirmed := 0
	{
		// one representative per (harness, assertion); at most 6 are replayed and reported
		seen := map[string]bool{}
		var uniq []eng.Violation
		for _, v := range c.viol {
			k := v.Harness + "|" + v.Kind + "|" + v.Msg
			if seen[k] || len(uniq) >= 6 {
				continue
			}
			seen[k] = true
			uniq = append(uniq, v)
		}
		c.violTotal = len(c.viol)
		c.viol = uniq
	}
	if len(c.viol) > 0 {
		var cases []eng.ReplayCase
		for _, v := range c.viol {
			cases = append(cases, eng.ReplayCase{Harness: v.Harness, Model: v.Model, Observed: v.Observed})
		}
		dir := filepath.Join(verifDir, "replays", id, eng.ModelHash(cases))
		res, err := eng.NativeReplay(c.prog, cases, dir)
		if err != nil {
			c.incon = append(c.incon, "replay failed: "+err.Error())
		} else {
			for i, v := range c.viol {
				r := res[i]
				repro := false
				if v.Kind == "panic" {
					repro = r.Panic != ""
				} else {
					for _, f := range r.Failures {
						if f == "ASSERT-FAILED: "+v.Msg {
							repro = true
						}
					}
				}
				if repro {
					confirmed++
					vb, _ := json.MarshalIndent(v, "", " ")
					os.WriteFile(filepath.Join(dir, fmt.Sprintf("violation_%d.json", i)), vb, 0644)
					lines = append(lines, fmt.Sprintf("VIOLATION property=%s replay=%s  # %s: %s at %s", id, dir, v.Kind, v.Msg, v.Pos))
				} else {
					c.incon = append(c.incon, fmt.Sprintf("solver model for %q did not reproduce natively (engine/stub defect, not a violation): model=%v native=%+v", v.Msg, v.Model, r))
				}
			}
		}
		if confirmed > 0 {
			exit = 1
		}
	}
	if len(c.monitorViol) > 0 {
		lines = append(lines, c.monitorViol...)
		confirmed += len(c.monitorViol)
		exit = 1
	}
	// 2. known findings: must still reproduce natively
	var keys []string
	for k := range activeKnown {
		keys = append(keys, k)
	}
	sort.Strings(keys)
	for _, k := range keys {
		hits := c.knownHit[k]
		if len(hits) == 0 {
			c.notes = append(c.notes, "known finding "+k+" was not hit in this run (region no longer violated?)")
			continue
		}
		v := hits[0]
		res, err := eng.NativeReplay(c.prog, []eng.ReplayCase{{Harness: v.Harness, Model: v.Model}}, "")
		if err != nil {
			c.incon = append(c.incon, "replay of known finding failed: "+err.Error())
			continue
		}
		ok := res[0].Panic != "" && v.Kind == "panic"
		for _, f := range res[0].Failures {
			if f == "ASSERT-FAILED: "+v.Msg {
				ok = true
			}
		}
		if ok {
			lines = append(lines, fmt.Sprintf("KNOWN-FINDING: property=%s %s [%s] witness=%s", id, activeKnown[k].What, k, compactModel(v.Model)))
		} else {
			c.incon = append(c.incon, "known finding "+k+": solver witness did not reproduce natively")
		}
	}
	// 3. translator validation: sample models natively
	validated := 0
	if len(c.samples) > 0 && exit == 0 {
		res, err := eng.NativeReplay(c.prog, c.samples, "")
		if err != nil {
			c.incon = append(c.incon, "selftest replay failed: "+err.Error())
		} else {
			for i, s := range c.samples {
				r := res[i]
				bad := ""
				if len(r.Failures) > 0 {
					bad = "native run fails where the engine proved the assertions: " + strings.Join(r.Failures, "; ")
				}
				if r.Panic != "" {
					bad = "native run panics: " + r.Panic
				}
				for k, ev := range s.Observed {
					if nv, ok := r.Observed[k]; ok {
						if eng.FormatObserved(ev) != nv {
							bad = fmt.Sprintf("observed %s differs: engine %q native %q", k, eng.FormatObserved(ev), nv)
						}
					}
				}
				if bad != "" {
					c.incon = append(c.incon, fmt.Sprintf("translator validation mismatch on %s model %s: %s", s.Harness, compactModel(s.Model), bad))
				} else {
					validated++
				}
			}
		}
	}
	c.validated = validated
	if exit == 0 && len(c.incon) > 0 {
		exit = 2
	}
	for _, l := range lines {
		fmt.Println(l)
	}
	for _, n := range c.notes {
		fmt.Println("NOTE:", n)
	}
	if exit == 2 {
		for _, s := range c.incon {
			fmt.Println("INCONCLUSIVE:", truncateStr(s, 1500))
		}
	}
	c.confirmed = confirmed
	writeEvidence(c, time.Since(t0), exit)
	tot := 0
	q := 0
	for _, r := range c.reports {
		tot += r.Paths
		q += r.Queries["total"]
	}
	fmt.Printf("%s %s: exit=%d harnesses=%d paths=%d queries=%d validated_natively=%d wall=%.1fs\n", id, c.tier, exit, len(c.reports), tot, q, validated, time.Since(t0).Seconds())
	return exit
}

func truncateStr(s string, n int) string {
	if len(s) > n {
		return s[:n] + "…"
	}
	return s
}

func compactModel(m eng.Model) string {
	ks := make([]string, 0, len(m))
	for k := range m {
		ks = append(ks, k)
	}
	sort.Strings(ks)
	var parts []string
	for _, k := range ks {
		v := m[k]
		if s, ok := v.(string); ok {
			s = strings.TrimRight(s, " ")
			if s == " plain" || strings.HasPrefix(k, "env_") && s == "" {
				continue // uninformative
			}
			if len(s) > 40 {
				v = fmt.Sprintf("<%d bytes>", len(s))
			} else {
				v = strconv.Quote(s)
			}
		}
		parts = append(parts, fmt.Sprintf("%s=%v", k, v))
	}
	return strings.Join(parts, ",")
}

func writeEvidence(c *checkCtx, wall time.Duration, exit int) {
	paths, decisions, queries, unsat, sat, unknown, asserts, obl := 0, 0, 0, 0, 0, 0, 0, 0
	solverS := c.extraSolverS
	funcs := map[string]bool{}
	stubs := map[string]bool{}
	var samples []interface{}
	for _, r := range c.reports {
		paths += r.Paths
		decisions += r.Decisions
		queries += r.Queries["total"]
		sat += r.Queries["sat"]
		unsat += r.Queries["unsat"]
		unknown += r.Queries["unknown"]
		asserts += r.AssertChecks
		obl += r.Obligations
		solverS += r.SolverS
		for _, f := range r.Funcs {
			funcs[f] = true
		}
		for _, s := range r.Stubs {
			stubs[s] = true
		}
	}
	for i, s := range c.samples {
		if i >= 5 {
			break
		}
		samples = append(samples, map[string]interface{}{"harness": s.Harness, "path_model": s.Model, "observed": s.Observed})
	}
	samples = append(samples, c.extraSamples...)
	if len(samples) == 0 {
		samples = append(samples, "no path completed")
	}
	var fl []string
	for f := range funcs {
		fl = append(fl, f)
	}
	sort.Strings(fl)
	var sl []string
	for s := range stubs {
		sl = append(sl, s)
	}
	sort.Strings(sl)
	obligations := asserts + obl + c.extraObl
	discharged := obligations
	if exit != 0 {
		discharged = obligations - len(c.viol) - len(c.incon)
		if discharged < 0 {
			discharged = 0
		}
	}
	cov := map[string]interface{}{
		"states":                             maxInt(paths, 1),
		"transitions":                        maxInt(decisions, 1),
		"traces_validated_against_impl":      c.validated,
		"samples":                            samples,
		"evaluations":                        maxInt(queries+c.extraObl, 1),
		"distinct_nontrivial":                maxInt(paths, 2),
		"rule":                               "states = feasible symbolic paths of the harnesses explored to their end (each stands for all inputs satisfying its path condition); transitions = symbolic branch decisions; evaluations = SMT queries discharged; distinct_nontrivial = feasible paths (distinct path conditions) — every one reached at least one assertion or ended in an assumption",
		"obligations":                        maxInt(obligations, 1),
		"discharged":                         discharged,
		"checker_cmd":                        "z3-new -in (z3 5.1.0); thorough tier re-discharges unsat assertion queries on cvc5 --incremental",
		"trusted_base":                       []string{"go/ssa (x/tools v0.38.0) construction", "go/parser + go/types", "z3 5.1.0 / cvc5 1.0", "Go toolchain used for native replay", "intrinsic models listed under stubs (validated natively on every run)"},
		"explanation":                        "bounded symbolic execution of the repository's go/ssa with an SMT solver deciding every assertion over all inputs inside the stated bounds; see runs[]",
		"exhaustive":                         exit == 0,
		"runs":                               c.reports,
		"functions_encoded":                  fl,
		"stubs_and_intrinsics":               sl,
		"queries":                            map[string]int{"total": queries, "sat": sat, "unsat": unsat, "unknown": unknown},
		"solver_time_s":                      solverS,
		"outside_bounds":                     c.prop.Outside,
		"known_findings_reported":            len(c.knownHit),
		"confirmed_violations":               c.confirmed,
		"inconclusive":                       c.incon,
		"exit":                               exit,
		"assert_sites_reached_over_all_runs": c.reached,
	}
	ev := map[string]interface{}{
		"property_id": c.prop.ID,
		"tier":        c.tier,
		"seed":        c.seed,
		"level":       "model_checking",
		"coverage":    cov,
		"assumptions": c.prop.Assumptions,
		"wall_s":      wall.Seconds(),
		"violations":  c.confirmed,
	}
	b, _ := json.MarshalIndent(ev, "", " ")
	// evidence describes runs against /repo; a run against another tree (VERIF_REPO: seeds, refactorings, old commits)
	// writes its record elsewhere so that the committed evidence is never overwritten by it
	evDir := filepath.Join(verifDir, "evidence")
	if r := os.Getenv("VERIF_REPO"); r != "" && filepath.Clean(r) != "/repo" {
		evDir = filepath.Join(os.TempDir(), "gosym-evidence-other-tree")
	}
	os.MkdirAll(evDir, 0755)
	os.WriteFile(filepath.Join(evDir, c.prop.ID+".json"), b, 0644)
}

func maxInt(a, b int) int {
	if a > b {
		return a
	}
	return b
}
