package eng

import (
	"fmt"
	"go/token"
	"go/types"
	"reflect"
	"strconv"
	"strings"

	"github.com/cloudflare/ahocorasick"
	"golang.org/x/tools/go/ssa"

	"verif/gosym/sym"
)

const ndPkg = RepoMod + "/src/zzverif/nd"

type intrinsic func(in *Interp, fn *ssa.Function, args []Value) Value

var intrinsics map[string]intrinsic

func init() {
	intrinsics = map[string]intrinsic{
		// ----- nd: nondeterministic inputs, assumptions, assertions -----
		ndPkg + ".Int":     ndInt,
		ndPkg + ".Bool":    ndBool,
		ndPkg + ".Str":     ndStr,
		ndPkg + ".Buf":     ndBuf,
		ndPkg + ".Atom":    ndAtom,
		ndPkg + ".Enum":    ndEnum,
		ndPkg + ".EnumPad": ndEnumPad,
		ndPkg + ".Assume":  ndAssume,
		ndPkg + ".Assert":  ndAssert,
		ndPkg + ".Known":   ndKnown,
		ndPkg + ".Observe": ndObserve,
		ndPkg + ".And": func(in *Interp, fn *ssa.Function, a []Value) Value {
			ts := in.sliceElems(a[0])
			cs := make([]*sym.Term, len(ts))
			for i, t := range ts {
				cs[i] = t.(*sym.Term)
			}
			return in.St.And(cs...)
		},
		ndPkg + ".Or": func(in *Interp, fn *ssa.Function, a []Value) Value {
			ts := in.sliceElems(a[0])
			cs := make([]*sym.Term, len(ts))
			for i, t := range ts {
				cs[i] = t.(*sym.Term)
			}
			return in.St.Or(cs...)
		},
		ndPkg + ".Not": func(in *Interp, fn *ssa.Function, a []Value) Value { return in.St.Not(a[0].(*sym.Term)) },
		ndPkg + ".Implies": func(in *Interp, fn *ssa.Function, a []Value) Value {
			return in.St.Implies(a[0].(*sym.Term), a[1].(*sym.Term))
		},
		ndPkg + ".Iff": func(in *Interp, fn *ssa.Function, a []Value) Value {
			return in.St.Eq(a[0].(*sym.Term), a[1].(*sym.Term))
		},
		ndPkg + ".IteInt": func(in *Interp, fn *ssa.Function, a []Value) Value {
			return in.St.Ite(a[0].(*sym.Term), a[1].(*sym.Term), a[2].(*sym.Term))
		},
		ndPkg + ".IteStr": func(in *Interp, fn *ssa.Function, a []Value) Value {
			sc := &specCtx{in: in}
			c := a[0].(*sym.Term)
			if c.IsTrue() {
				return a[1]
			}
			if c.IsFalse() {
				return a[2]
			}
			var res Value
			func() {
				defer func() {
					if r := recover(); r != nil {
						if _, ok := r.(specAbort); ok {
							in.fail("nd.IteStr: unmergeable strings")
						}
						panic(r)
					}
				}()
				res = sc.mergeVal(c, a[1], a[2])
			}()
			return res
		},
		"slices.Contains": func(in *Interp, fn *ssa.Function, a []Value) Value {
			var ds []*sym.Term
			for _, e := range in.sliceElems(a[0]) {
				ds = append(ds, in.equal(e, a[1]))
			}
			return in.St.Or(ds...)
		},
		ndPkg + ".StrEq": func(in *Interp, fn *ssa.Function, a []Value) Value { return in.strEq(a[0].(*Str), a[1].(*Str)) },
		ndPkg + ".CountByte": func(in *Interp, fn *ssa.Function, a []Value) Value {
			b := a[1].(*sym.Term)
			if !b.IsConst() {
				in.fail("CountByte with symbolic byte")
			}
			return in.strCountByte(a[0].(*Str), b.I)
		},
		ndPkg + ".Contains":  func(in *Interp, fn *ssa.Function, a []Value) Value { return in.strContains(a[0].(*Str), a[1].(*Str)) },
		ndPkg + ".HasSuffix": func(in *Interp, fn *ssa.Function, a []Value) Value { return in.strHasSuffix(a[0].(*Str), a[1].(*Str)) },
		ndPkg + ".HasPrefix": func(in *Interp, fn *ssa.Function, a []Value) Value { return in.strHasPrefix(a[0].(*Str), a[1].(*Str)) },
		ndPkg + ".Pin": func(in *Interp, fn *ssa.Function, a []Value) Value {
			t := a[0].(*sym.Term)
			for k := 0; k < 256 && !t.IsConst(); k++ {
				var v int64
				if in.tpos < len(in.trace) {
					// replay: the decision below is recorded; any value consistent with it is found again the same way
				}
				vals, err := in.Sol.Values([]*sym.Term{t})
				if err != nil {
					in.fail("nd.Pin: %v", err)
				}
				v = vals[0]
				c := in.St.Int(v)
				if in.choose([]*sym.Term{in.St.Eq(t, c), in.St.Not(in.St.Eq(t, c))}, "pin") == 0 {
					return c
				}
			}
			if !t.IsConst() {
				in.fail("nd.Pin: too many feasible values")
			}
			return t
		},
		ndPkg + ".PinStr": func(in *Interp, fn *ssa.Function, a []Value) Value {
			s := a[0].(*Str)
			if s.kind == sConc {
				return s
			}
			if s.kind != sEnum {
				in.fail("nd.PinStr needs a finite-domain string")
			}
			conds := make([]*sym.Term, len(s.alts))
			for i := range s.alts {
				conds[i] = in.St.Eq(s.sel, in.St.Int(int64(i)))
			}
			return concStr(s.alts[in.choose(conds, "pin string")])
		},
		ndPkg + ".Symbolic": func(in *Interp, fn *ssa.Function, a []Value) Value { return in.St.True },
		ndPkg + ".Reach": func(in *Interp, fn *ssa.Function, a []Value) Value {
			in.reached = append(in.reached, "reach:"+a[0].(*Str).conc)
			return nil
		},

		// ----- strings -----
		"strings.TrimLeft": func(in *Interp, fn *ssa.Function, a []Value) Value {
			return in.trimCutset(a, "strings.TrimLeft", true, false)
		},
		"strings.TrimRight": func(in *Interp, fn *ssa.Function, a []Value) Value {
			return in.trimCutset(a, "strings.TrimRight", false, true)
		},
		"strings.TrimSpace": func(in *Interp, fn *ssa.Function, a []Value) Value {
			s := a[0].(*Str)
			if s.kind == sConc {
				return concStr(strings.TrimSpace(s.conc))
			}
			if s.kind == sEnum {
				return enumMap(s, strings.TrimSpace)
			}
			return in.strTrimSpace(s)
		},
		"strings.Trim": func(in *Interp, fn *ssa.Function, a []Value) Value {
			s, cut := a[0].(*Str), a[1].(*Str)
			if cut.kind != sConc {
				in.fail("strings.Trim with symbolic cutset")
			}
			if s.kind == sConc {
				return concStr(strings.Trim(s.conc, cut.conc))
			}
			if s.kind == sEnum {
				return enumMap(s, func(x string) string { return strings.Trim(x, cut.conc) })
			}
			cs := cut.conc
			return in.strTrimFunc(s, func(b *sym.Term) *sym.Term {
				var ds []*sym.Term
				for i := 0; i < len(cs); i++ {
					ds = append(ds, in.St.Eq(b, in.St.Int(int64(cs[i]))))
				}
				return in.St.Or(ds...)
			}, "Trim")
		},
		"strings.ToUpper": func(in *Interp, fn *ssa.Function, a []Value) Value {
			s := a[0].(*Str)
			if s.kind == sConc {
				return concStr(strings.ToUpper(s.conc))
			}
			if s.kind == sEnum {
				return enumMap(s, strings.ToUpper)
			}
			return in.strMapBytes(s, in.upperByte)
		},
		"strings.ToLower": func(in *Interp, fn *ssa.Function, a []Value) Value {
			s := a[0].(*Str)
			if s.kind == sConc {
				return concStr(strings.ToLower(s.conc))
			}
			if s.kind == sEnum {
				return enumMap(s, strings.ToLower)
			}
			return in.strMapBytes(s, in.lowerByte)
		},
		"strings.Contains":  func(in *Interp, fn *ssa.Function, a []Value) Value { return in.strContains(a[0].(*Str), a[1].(*Str)) },
		"strings.HasPrefix": func(in *Interp, fn *ssa.Function, a []Value) Value { return in.strHasPrefix(a[0].(*Str), a[1].(*Str)) },
		"strings.HasSuffix": func(in *Interp, fn *ssa.Function, a []Value) Value { return in.strHasSuffix(a[0].(*Str), a[1].(*Str)) },
		"strings.Split": func(in *Interp, fn *ssa.Function, a []Value) Value {
			s, sep := a[0].(*Str), a[1].(*Str)
			if sep.kind != sConc || len(sep.conc) != 1 {
				if s.kind == sConc && sep.kind == sConc {
					ps := strings.Split(s.conc, sep.conc)
					vs := make([]Value, len(ps))
					for i, p := range ps {
						vs[i] = concStr(p)
					}
					return in.mkSlice(vs)
				}
				in.fail("strings.Split with non single-byte separator on symbolic input")
			}
			if s.kind == sEnum {
				return in.enumSplit(s, sep.conc)
			}
			parts := in.strSplitByte(s, int64(sep.conc[0]))
			vs := make([]Value, len(parts))
			for i, p := range parts {
				vs[i] = p
			}
			return in.mkSlice(vs)
		},
		"strings.Join": func(in *Interp, fn *ssa.Function, a []Value) Value {
			elems := in.sliceElems(a[0])
			sep := a[1].(*Str)
			var r *Str = concStr("")
			for i, e := range elems {
				if i > 0 {
					r = in.strConcat(r, sep)
				}
				r = in.strConcat(r, e.(*Str))
			}
			return r
		},
		"strings.Repeat": func(in *Interp, fn *ssa.Function, a []Value) Value {
			s, n := a[0].(*Str), a[1].(*sym.Term)
			if s.kind != sConc {
				in.fail("strings.Repeat of symbolic string")
			}
			n = in.tryConcretize(n)
			if n.IsConst() {
				if n.I < 0 {
					panic(&goPanic{msg: "strings: negative Repeat count", pos: in.curPos})
				}
				return concStr(strings.Repeat(s.conc, int(n.I)))
			}
			if len(s.conc) != 1 {
				in.fail("strings.Repeat symbolic count of multi-byte string")
			}
			in.require(in.St.Le(in.St.Int(0), n), "strings: negative Repeat count")
			b := in.St.Int(int64(s.conc[0]))
			return &Str{kind: sView, length: n, max: -1, origin: "repeat", at: func(i *sym.Term) *sym.Term { return b }}
		},
		"strings.Clone":              func(in *Interp, fn *ssa.Function, a []Value) Value { return a[0] },
		"internal/stringslite.Clone": func(in *Interp, fn *ssa.Function, a []Value) Value { return a[0] },
		"strings.EqualFold": func(in *Interp, fn *ssa.Function, a []Value) Value {
			x, y := a[0].(*Str), a[1].(*Str)
			if x.kind == sConc && y.kind == sConc {
				return in.St.Bool(strings.EqualFold(x.conc, y.conc))
			}
			return in.strEq(in.strMapBytes(x, in.lowerByte), in.strMapBytes(y, in.lowerByte))
		},
		"strings.Index": func(in *Interp, fn *ssa.Function, a []Value) Value {
			x, y := a[0].(*Str), a[1].(*Str)
			if x.kind == sConc && y.kind == sConc {
				return in.St.Int(int64(strings.Index(x.conc, y.conc)))
			}
			if y.kind == sConc {
				// first occurrence of a concrete needle in a bounded symbolic subject
				st := in.St
				v := in.toView(x)
				n := in.needMax(v, "strings.Index")
				k := len(y.conc)
				res := st.Int(-1)
				for i := n - k; i >= 0; i-- {
					cs := []*sym.Term{st.Le(st.Int(int64(i+k)), v.length)}
					for j := 0; j < k; j++ {
						cs = append(cs, st.Eq(v.at(st.Int(int64(i+j))), st.Int(int64(y.conc[j]))))
					}
					res = st.Ite(st.And(cs...), st.Int(int64(i)), res)
				}
				return res
			}
			in.fail("strings.Index on symbolic strings")
			return nil
		},
		// number of occurrences of one byte (strings.Count / SplitSeq / genSplit reach it for one-byte separators)
		"internal/bytealg.CountString": func(in *Interp, fn *ssa.Function, a []Value) Value {
			x, y := a[0].(*Str), a[1].(*sym.Term)
			st := in.St
			if x.kind == sConc && y.IsConst() {
				return st.Int(int64(strings.Count(x.conc, string([]byte{byte(y.I)}))))
			}
			v := in.toView(x)
			n := in.needMax(v, "bytealg.CountString")
			total := st.Int(0)
			for i := 0; i < n; i++ {
				ii := st.Int(int64(i))
				total = st.Add(total, st.Ite(st.And(st.Lt(ii, v.length), st.Eq(v.at(ii), y)), st.Int(1), st.Int(0)))
			}
			return total
		},
		// first index of one byte (strings.Index / Cut / IndexByte reach it)
		"internal/bytealg.IndexByteString": func(in *Interp, fn *ssa.Function, a []Value) Value {
			x, y := a[0].(*Str), a[1].(*sym.Term)
			st := in.St
			if x.kind == sConc && y.IsConst() {
				return st.Int(int64(strings.IndexByte(x.conc, byte(y.I))))
			}
			v := in.toView(x)
			n := in.needMax(v, "bytealg.IndexByteString")
			res := st.Int(-1)
			for i := n - 1; i >= 0; i-- {
				ii := st.Int(int64(i))
				res = st.Ite(st.And(st.Lt(ii, v.length), st.Eq(v.at(ii), y)), ii, res)
			}
			return res
		},
		"internal/bytealg.IndexString": func(in *Interp, fn *ssa.Function, a []Value) Value {
			x, y := a[0].(*Str), a[1].(*Str)
			if x.kind == sConc && y.kind == sConc {
				return in.St.Int(int64(strings.Index(x.conc, y.conc)))
			}
			in.fail("bytealg.IndexString on symbolic strings")
			return nil
		},
		"strings.IndexByte": func(in *Interp, fn *ssa.Function, a []Value) Value {
			x, y := a[0].(*Str), a[1].(*sym.Term)
			if x.kind == sConc && y.IsConst() {
				return in.St.Int(int64(strings.IndexByte(x.conc, byte(y.I))))
			}
			in.fail("strings.IndexByte on symbolic strings")
			return nil
		},
		"(*strings.Builder).WriteString": func(in *Interp, fn *ssa.Function, a []Value) Value {
			p := a[0].(*Ptr)
			cur := in.builderGet(p)
			in.builders[p.cell] = in.strConcat(cur, a[1].(*Str))
			return TupleV{in.strLen(a[1].(*Str)), &IfaceV{}}
		},
		"(*strings.Builder).WriteByte": func(in *Interp, fn *ssa.Function, a []Value) Value {
			p := a[0].(*Ptr)
			cur := in.builderGet(p)
			in.builders[p.cell] = in.strConcat(cur, in.strFromBytes([]*sym.Term{a[1].(*sym.Term)}))
			return &IfaceV{}
		},
		"(*strings.Builder).WriteRune": func(in *Interp, fn *ssa.Function, a []Value) Value {
			p := a[0].(*Ptr)
			cur := in.builderGet(p)
			r := a[1].(*sym.Term)
			if !r.IsConst() {
				in.fail("WriteRune symbolic")
			}
			in.builders[p.cell] = in.strConcat(cur, concStr(string(rune(r.I))))
			return TupleV{in.St.Int(int64(len(string(rune(r.I))))), &IfaceV{}}
		},
		"(*strings.Builder).String": func(in *Interp, fn *ssa.Function, a []Value) Value { return in.builderGet(a[0].(*Ptr)) },
		"(*strings.Builder).Len":    func(in *Interp, fn *ssa.Function, a []Value) Value { return in.strLen(in.builderGet(a[0].(*Ptr))) },
		"(*strings.Builder).Grow":   func(in *Interp, fn *ssa.Function, a []Value) Value { return nil },
		"(*strings.Builder).Reset": func(in *Interp, fn *ssa.Function, a []Value) Value {
			in.builders[a[0].(*Ptr).cell] = concStr("")
			return nil
		},

		// ----- fmt -----
		"fmt.Sprintf": func(in *Interp, fn *ssa.Function, a []Value) Value {
			return in.sprintf(a[0].(*Str), in.sliceElems(a[1]))
		},
		// strconv.Itoa of a symbolic int: the same decimal model as %d (concrete arguments are interpreted from the source)
		"strconv.Itoa": func(in *Interp, fn *ssa.Function, a []Value) Value {
			t := a[0].(*sym.Term)
			if t.IsConst() {
				return concStr(strconv.Itoa(int(t.I)))
			}
			return in.strItoa(t)
		},
		// Fprintf / Fprint / Fprintln into a *strings.Builder (the only writers the repository formats into)
		"fmt.Fprintf": func(in *Interp, fn *ssa.Function, a []Value) Value {
			p := in.builderWriter(a[0])
			out := in.sprintf(a[1].(*Str), in.sliceElems(a[2])).(*Str)
			in.builders[p.cell] = in.strConcat(in.builderGet(p), out)
			return TupleV{in.strLen(out), &IfaceV{}}
		},
		"fmt.Sprint": func(in *Interp, fn *ssa.Function, a []Value) Value {
			vs := in.sliceElems(a[0])
			hs := make([]interface{}, len(vs))
			for i, v := range vs {
				h, ok := in.toGoAny(v)
				if !ok {
					in.fail("fmt.Sprint of symbolic value")
				}
				hs[i] = h
			}
			return concStr(fmt.Sprint(hs...))
		},
		"fmt.Errorf": func(in *Interp, fn *ssa.Function, a []Value) Value {
			s := in.sprintf(a[0].(*Str), in.sliceElems(a[1]))
			return &IfaceV{typ: in.P.LookupType("errors", "errorString"), val: &Ptr{cell: in.newCell(&StructV{fields: []Value{s}}, "error")}}
		},

		// ----- unicode / token helpers (ASCII semantics; the unicode tables are not initialised) -----
		"unicode.IsUpper": func(in *Interp, fn *ssa.Function, a []Value) Value {
			r := a[0].(*sym.Term)
			return in.St.And(in.St.Le(in.St.Int('A'), r), in.St.Le(r, in.St.Int('Z')))
		},
		"unicode.IsLower": func(in *Interp, fn *ssa.Function, a []Value) Value {
			r := a[0].(*sym.Term)
			return in.St.And(in.St.Le(in.St.Int('a'), r), in.St.Le(r, in.St.Int('z')))
		},
		"unicode.IsDigit": func(in *Interp, fn *ssa.Function, a []Value) Value {
			r := a[0].(*sym.Term)
			return in.St.And(in.St.Le(in.St.Int('0'), r), in.St.Le(r, in.St.Int('9')))
		},
		"unicode.IsLetter": func(in *Interp, fn *ssa.Function, a []Value) Value {
			r := a[0].(*sym.Term)
			st := in.St
			return st.Or(st.And(st.Le(st.Int('A'), r), st.Le(r, st.Int('Z'))), st.And(st.Le(st.Int('a'), r), st.Le(r, st.Int('z'))))
		},
		"unicode.IsSpace": func(in *Interp, fn *ssa.Function, a []Value) Value { return in.isSpaceByte(a[0].(*sym.Term)) },
		"go/token.IsExported": func(in *Interp, fn *ssa.Function, a []Value) Value {
			s := a[0].(*Str)
			st := in.St
			switch s.kind {
			case sConc:
				return st.Bool(token.IsExported(s.conc))
			case sEnum:
				var ds []*sym.Term
				for i, x := range s.alts {
					if token.IsExported(x) {
						ds = append(ds, st.Eq(s.sel, st.Int(int64(i))))
					}
				}
				return st.Or(ds...)
			case sAtom:
				in.fail("token.IsExported of an opaque atom")
			}
			v := in.toView(s)
			b := v.at(st.Int(0))
			return st.And(st.Lt(st.Int(0), v.length), st.Le(st.Int('A'), b), st.Le(b, st.Int('Z')))
		},
		"go/ast.IsExported": func(in *Interp, fn *ssa.Function, a []Value) Value {
			return intrinsics["go/token.IsExported"](in, fn, a)
		},

		// reflect.TypeOf is only used to fill analysis.Analyzer.ResultType: opaque
		"reflect.TypeOf": func(in *Interp, fn *ssa.Function, a []Value) Value { return &IfaceV{} },

		// ----- sync -----
		"(*sync.Once).Do": func(in *Interp, fn *ssa.Function, a []Value) Value {
			p := a[0].(*Ptr)
			k, _ := concKey(p)
			if in.onces[k] {
				return nil
			}
			// symbolic "already done" state can be injected by the harness via Ex.OnceDone
			in.onces[k] = true
			cl := a[1].(*Closure)
			in.inOnce++
			defer func() { in.inOnce-- }()
			in.invoke(nil, &callTarget{closure: cl, fn: cl.fn}, nil, nil, nil)
			return nil
		},
		// sync.Map: a synchronised shared map (its use is not a data race; order dependence is a separate question
		// answered by harnesses that run actions in both orders)
		"(*sync.Map).Load": func(in *Interp, fn *ssa.Function, a []Value) Value {
			m := in.syncMap(a[0])
			i := in.mapFind(m, a[1])
			if i < 0 {
				return TupleV{&IfaceV{}, in.St.False}
			}
			return TupleV{m.entries[i].val, in.St.True}
		},
		"(*sync.Map).Store": func(in *Interp, fn *ssa.Function, a []Value) Value {
			in.mapUpdate(in.syncMap(a[0]), a[1], a[2])
			return nil
		},
		"(*sync.Map).LoadOrStore": func(in *Interp, fn *ssa.Function, a []Value) Value {
			m := in.syncMap(a[0])
			i := in.mapFind(m, a[1])
			if i >= 0 {
				return TupleV{m.entries[i].val, in.St.True}
			}
			in.mapUpdate(m, a[1], a[2])
			return TupleV{a[2], in.St.False}
		},
		"(*sync.Map).Delete": func(in *Interp, fn *ssa.Function, a []Value) Value {
			in.mapDelete(in.syncMap(a[0]), a[1])
			return nil
		},
		// sync.Pool: a free list shared by everything that runs in the process. Modelled as a LIFO stack per pool
		// (Put pushes, Get pops or calls New): one legal behaviour of the real pool, and the one under which state
		// left in a pooled object reaches the next user — which is what order/commutation harnesses look for.
		"(*sync.Pool).Get": func(in *Interp, fn *ssa.Function, a []Value) Value {
			p := a[0].(*Ptr)
			k, _ := concKey(p)
			if st := in.syncPools[k]; len(st) > 0 {
				v := st[len(st)-1]
				in.syncPools[k] = st[:len(st)-1]
				return v
			}
			sv, ok := in.load(p).(*StructV)
			if !ok {
				in.fail("sync.Pool value is %T", in.load(p))
			}
			for i := 0; i < sv.typ.NumFields(); i++ {
				if sv.typ.Field(i).Name() == "New" {
					cl, ok := sv.fields[i].(*Closure)
					if !ok || cl == nil {
						return &IfaceV{}
					}
					return in.invoke(nil, &callTarget{closure: cl, fn: cl.fn}, nil, nil, nil)
				}
			}
			return &IfaceV{}
		},
		"(*sync.Pool).Put": func(in *Interp, fn *ssa.Function, a []Value) Value {
			p := a[0].(*Ptr)
			k, _ := concKey(p)
			if in.syncPools == nil {
				in.syncPools = map[string][]Value{}
			}
			in.syncPools[k] = append(in.syncPools[k], a[1])
			return nil
		},
		"(*sync.Mutex).Lock":      func(in *Interp, fn *ssa.Function, a []Value) Value { in.inOnce++; return nil },
		"(*sync.Mutex).Unlock":    func(in *Interp, fn *ssa.Function, a []Value) Value { in.inOnce--; return nil },
		"(*sync.RWMutex).Lock":    func(in *Interp, fn *ssa.Function, a []Value) Value { in.inOnce++; return nil },
		"(*sync.RWMutex).Unlock":  func(in *Interp, fn *ssa.Function, a []Value) Value { in.inOnce--; return nil },
		"(*sync.RWMutex).RLock":   func(in *Interp, fn *ssa.Function, a []Value) Value { return nil },
		"(*sync.RWMutex).RUnlock": func(in *Interp, fn *ssa.Function, a []Value) Value { return nil },

		// ----- os (environment = nondeterministic stub) -----
		"os.Getenv": func(in *Interp, fn *ssa.Function, a []Value) Value {
			if in.inInit {
				return concStr("") // package initialisers see an empty environment
			}
			set, val := in.envLookup(a[0].(*Str))
			if in.branch(set, "env set") {
				return val
			}
			return concStr("")
		},
		"os.LookupEnv": func(in *Interp, fn *ssa.Function, a []Value) Value {
			if in.inInit {
				return TupleV{concStr(""), in.St.False}
			}
			set, val := in.envLookup(a[0].(*Str))
			if in.branch(set, "env set") {
				return TupleV{val, in.St.True}
			}
			return TupleV{concStr(""), in.St.False}
		},

		// ----- aho-corasick (contract stub for symbolic input) -----
		"github.com/cloudflare/ahocorasick.NewStringMatcher": func(in *Interp, fn *ssa.Function, a []Value) Value {
			var dict []string
			for _, e := range in.sliceElems(a[0]) {
				s := e.(*Str)
				if s.kind != sConc {
					in.fail("symbolic aho-corasick dictionary")
				}
				dict = append(dict, s.conc)
			}
			m := ahocorasick.NewStringMatcher(dict)
			h := &HostV{reflect.ValueOf(m)}
			in.matcherDict()[m] = dict
			return h
		},
		"(*github.com/cloudflare/ahocorasick.Matcher).Match": func(in *Interp, fn *ssa.Function, a []Value) Value {
			// Matcher.Match mutates the matcher (it is documented as not safe for concurrent use): on a matcher created by a
			// package initialiser this is a write to shared state
			h := a[0].(*HostV)
			m := h.rv.Interface().(*ahocorasick.Matcher)
			if in.inOnce == 0 && !in.inInit {
				w := "?"
				if in.curFn != nil {
					w = in.curFn.String()
				}
				in.globalWrites = append(in.globalWrites, "global-heap shared ahocorasick.Matcher mutated by Match (not safe for concurrent use) written by "+w)
			}
			var s *Str
			switch x := a[1].(type) {
			case *BytesV:
				s = x.s
			default:
				in.fail("Matcher.Match on %T", a[1])
			}
			dict, ok := in.matcherDict()[m]
			if !ok {
				in.fail("aho-corasick matcher with unknown dictionary")
			}
			// hits in dictionary order of first occurrence is what Match returns; model: indices of contained words, ascending
			var out []Value
			for i, w := range dict {
				c := in.strContains(s, concStr(w))
				if in.branch(c, "Matcher.Match hit") {
					out = append(out, in.St.Int(int64(i)))
				}
			}
			return in.mkSlice(out)
		},
		"(*github.com/cloudflare/ahocorasick.Matcher).Contains": func(in *Interp, fn *ssa.Function, a []Value) Value {
			h := a[0].(*HostV)
			m := h.rv.Interface().(*ahocorasick.Matcher)
			var s *Str
			switch x := a[1].(type) {
			case *BytesV:
				s = x.s
			case *SliceV:
				bs := make([]*sym.Term, x.len)
				for i := range bs {
					bs[i] = in.load(&Ptr{cell: x.arr, path: []int{x.off + i}}).(*sym.Term)
				}
				s = in.strFromBytes(bs)
			default:
				in.fail("Matcher.Contains on %T", a[1])
			}
			if s.kind == sConc {
				return in.St.Bool(m.Contains([]byte(s.conc)))
			}
			dict, ok := in.matcherDict()[m]
			if !ok {
				in.fail("aho-corasick matcher with unknown dictionary")
			}
			in.stubs["ahocorasick.Matcher.Contains (contract: true iff a dictionary word is a substring)"] = true
			var ds []*sym.Term
			for _, w := range dict {
				ds = append(ds, in.strContains(s, concStr(w)))
			}
			return in.St.Or(ds...)
		},
	}
	registerScannerIntrinsics()
	registerRegexIntrinsics()
	registerL1Intrinsics()
}

func (in *Interp) matcherDict() map[*ahocorasick.Matcher][]string {
	if in.matchers == nil {
		in.matchers = map[*ahocorasick.Matcher][]string{}
	}
	return in.matchers
}

func (in *Interp) builderGet(p *Ptr) *Str {
	if s, ok := in.builders[p.cell]; ok {
		return s
	}
	return concStr("")
}

func (in *Interp) envLookup(key *Str) (*sym.Term, *Str) {
	if key.kind != sConc {
		in.fail("environment lookup with symbolic key")
	}
	in.stubs["os.Getenv/os.LookupEnv (arbitrary (set?, value) per variable, ASCII, bounded length)"] = true
	set := in.inputBool("env_" + key.conc + "_set")
	val := in.inputStr("env_"+key.conc, in.Ex.EnvMax)
	return set, val
}

// ---------- nd implementations ----------

func (in *Interp) nameArg(v Value) string {
	s, ok := v.(*Str)
	if !ok || s.kind != sConc {
		in.fail("nd: input name must be a constant string")
	}
	return sanitize(s.conc)
}

func sanitize(s string) string {
	var b strings.Builder
	for _, c := range s {
		if (c >= 'a' && c <= 'z') || (c >= 'A' && c <= 'Z') || (c >= '0' && c <= '9') || c == '_' {
			b.WriteRune(c)
		} else {
			b.WriteByte('_')
		}
	}
	return b.String()
}

func (in *Interp) inputInt(name string) *sym.Term {
	if inp, ok := in.inputIdx[name]; ok {
		return inp.T
	}
	t := in.St.Var("i_"+name, sym.SInt)
	inp := &Input{Name: name, Kind: InInt, T: t}
	in.inputs = append(in.inputs, inp)
	in.inputIdx[name] = inp
	// all Go ints are 64-bit
	in.addPC(in.St.InRange(t, -1<<63, 1<<63-1))
	return t
}

func (in *Interp) inputBool(name string) *sym.Term {
	if inp, ok := in.inputIdx[name]; ok {
		return inp.T
	}
	t := in.St.Var("b_"+name, sym.SBool)
	inp := &Input{Name: name, Kind: InBool, T: t}
	in.inputs = append(in.inputs, inp)
	in.inputIdx[name] = inp
	return t
}

func (in *Interp) inputStr(name string, max int) *Str {
	st := in.St
	if inp, ok := in.inputIdx[name]; ok {
		switch inp.Kind {
		case InEnum:
			if len(inp.Alts) == 1 {
				return concStr(inp.Alts[0])
			}
			mx := 0
			for _, x := range inp.Alts {
				if len(x) > mx {
					mx = len(x)
				}
			}
			return &Str{kind: sEnum, sel: inp.T, alts: inp.Alts, max: mx}
		case InAtom:
			return &Str{kind: sAtom, atom: inp.T, max: -1}
		}
		return in.viewOf(inp)
	}
	ln := st.Var("l_"+name, sym.SInt)
	arr := st.Var("a_"+name, sym.SArr)
	kind := InStr
	if max < 0 {
		kind = InBuf
	}
	inp := &Input{Name: name, Kind: kind, Max: max, T: ln, Arr: arr}
	in.inputs = append(in.inputs, inp)
	in.inputIdx[name] = inp
	if max >= 0 {
		in.addPC(st.InRange(ln, 0, int64(max)))
		cs := make([]*sym.Term, 0, max)
		for i := 0; i < max; i++ {
			cs = append(cs, st.InRange(st.Select(arr, st.Int(int64(i))), in.Ex.ByteLo, in.Ex.ByteHi))
		}
		in.addPC(st.And(cs...))
	} else {
		in.addPC(st.InRange(ln, 0, in.Ex.BufMaxLen))
	}
	return in.viewOf(inp)
}

func (in *Interp) viewOf(inp *Input) *Str {
	st := in.St
	arr := inp.Arr
	if inp.Max < 0 {
		// unbounded buffer: "a byte is a byte" is assumed at each access (there is no static bound to expand over)
		return &Str{kind: sView, length: inp.T, max: inp.Max, origin: inp.Name, at: func(i *sym.Term) *sym.Term {
			b := st.Select(arr, i)
			if !in.byteAssumed[b.ID] {
				in.byteAssumed[b.ID] = true
				in.addPC(st.InRange(b, in.Ex.ByteLo, in.Ex.ByteHi))
			}
			return b
		}}
	}
	return &Str{kind: sView, length: inp.T, max: inp.Max, origin: inp.Name, at: func(i *sym.Term) *sym.Term { return st.Select(arr, i) }}
}

func ndInt(in *Interp, fn *ssa.Function, a []Value) Value  { return in.inputInt(in.nameArg(a[0])) }
func ndBool(in *Interp, fn *ssa.Function, a []Value) Value { return in.inputBool(in.nameArg(a[0])) }
func ndStr(in *Interp, fn *ssa.Function, a []Value) Value {
	mx := a[1].(*sym.Term)
	if !mx.IsConst() {
		in.fail("nd.Str bound must be constant")
	}
	return in.inputStr(in.nameArg(a[0]), int(mx.I))
}
func ndBuf(in *Interp, fn *ssa.Function, a []Value) Value { return in.inputStr(in.nameArg(a[0]), -1) }
func ndAtom(in *Interp, fn *ssa.Function, a []Value) Value {
	name := in.nameArg(a[0])
	inp, ok := in.inputIdx[name]
	if !ok {
		t := in.St.Var("s_"+name, sym.SInt)
		inp = &Input{Name: name, Kind: InAtom, T: t}
		in.inputs = append(in.inputs, inp)
		in.inputIdx[name] = inp
	}
	return &Str{kind: sAtom, atom: inp.T, max: -1}
}
func ndEnumPad(in *Interp, fn *ssa.Function, a []Value) Value {
	return ndEnumImpl(in, a, true)
}

func ndEnum(in *Interp, fn *ssa.Function, a []Value) Value {
	return ndEnumImpl(in, a, false)
}

func ndEnumImpl(in *Interp, a []Value, pad bool) Value {
	name := in.nameArg(a[0])
	var alts []string
	for _, e := range in.sliceElems(a[1]) {
		s := e.(*Str)
		if s.kind != sConc {
			in.fail("nd.Enum alternatives must be constants")
		}
		alts = append(alts, s.conc)
	}
	if pad {
		m := maxLen(alts)
		for i := range alts {
			alts[i] += strings.Repeat(" ", m-len(alts[i]))
		}
	}
	if len(alts) == 0 {
		in.fail("nd.Enum without alternatives")
	}
	inp, ok := in.inputIdx[name]
	if !ok {
		t := in.St.Var("e_"+name, sym.SInt)
		inp = &Input{Name: name, Kind: InEnum, T: t, Alts: alts}
		in.inputs = append(in.inputs, inp)
		in.inputIdx[name] = inp
		in.addPC(in.St.InRange(t, 0, int64(len(alts)-1)))
	}
	if len(alts) == 1 {
		return concStr(alts[0])
	}
	mx := 0
	for _, x := range alts {
		if len(x) > mx {
			mx = len(x)
		}
	}
	return &Str{kind: sEnum, sel: inp.T, alts: alts, max: mx}
}

func ndAssume(in *Interp, fn *ssa.Function, a []Value) Value {
	c := a[0].(*sym.Term)
	if c.IsTrue() {
		return nil
	}
	if c.IsFalse() {
		panic(pathEnd{"assume false"})
	}
	if in.tpos < len(in.trace) || true {
		// feasibility of pc ∧ c must be established (assumptions must not make the path vacuous)
		in.addPC(c)
		if in.tpos >= len(in.trace) {
			switch in.Sol.Check() {
			case sym.RUnsat:
				panic(pathEnd{"assume infeasible"})
			case sym.RUnknown:
				in.unknownFeas++
			}
		}
	}
	return nil
}

func ndAssert(in *Interp, fn *ssa.Function, a []Value) Value {
	c := a[0].(*sym.Term)
	msg := "assert"
	if s, ok := a[1].(*Str); ok && s.kind == sConc {
		msg = s.conc
	}
	in.asserts++
	in.reached = append(in.reached, msg)
	in.Ex.mu.Lock()
	in.Ex.AssertsChecked++
	in.Ex.mu.Unlock()
	if c.IsTrue() {
		return nil
	}
	neg := in.St.Not(c)
	in.Sol.Push()
	in.Sol.Assert(neg)
	r := in.Sol.Check()
	if r == sym.RUnknown {
		// portfolio: a second solver gets the same query (full path condition) before the run is declared inconclusive
		r = in.fallbackCheck(neg)
	}
	if r == sym.RUnsat && in.cross != nil {
		in.crossCheck(neg)
	}
	switch r {
	case sym.RSat:
		v := Violation{Harness: in.Ex.Harness, Kind: "assert", Msg: msg, Pos: in.posStr(in.curPos, nil), Known: in.knownKey, Trace: append([]int(nil), in.taken...)}
		m, obs, err := in.extractModelMinimised()
		if err != nil {
			in.Sol.Pop()
			panic(inconclusive{"model extraction failed: " + err.Error()})
		}
		v.Model = m
		v.Observed = obs
		in.Sol.Pop()
		in.Ex.addViolation(v)
	case sym.RUnknown:
		in.Sol.Pop()
		panic(inconclusive{fmt.Sprintf("solver answered unknown on assertion %q (%s)", msg, in.Sol.LastErr)})
	default:
		in.Sol.Pop()
	}
	// continue under the assumption that the assertion holds
	if c.IsFalse() {
		panic(pathEnd{"assert false"})
	}
	in.addPC(c)
	if r == sym.RSat {
		if in.Sol.Check() == sym.RUnsat {
			panic(pathEnd{"assertion always violated on this path"})
		}
	}
	return nil
}

// extractModelMinimised prefers short Buf lengths so that replay stays cheap.
func (in *Interp) extractModelMinimised() (Model, map[string]interface{}, error) {
	var bufs []*sym.Term
	for _, inp := range in.inputs {
		if inp.Kind == InBuf {
			bufs = append(bufs, inp.T)
		}
	}
	if len(bufs) > 0 {
		for _, lim := range []int64{256, 1024, 8192, 65536} {
			in.Sol.Push()
			for _, b := range bufs {
				in.Sol.Assert(in.St.Le(b, in.St.Int(lim)))
			}
			if in.Sol.Check() == sym.RSat {
				m, obs, err := in.extractModel()
				in.Sol.Pop()
				return m, obs, err
			}
			in.Sol.Pop()
		}
		if in.Sol.Check() != sym.RSat {
			return nil, nil, fmt.Errorf("lost satisfiability")
		}
	}
	return in.extractModel()
}

func (in *Interp) fallbackCheck(neg *sym.Term) sym.Result {
	if in.fallback == nil {
		fb, err := sym.NewSolver("cvc5", in.St, in.Ex.TimeoutMS*2)
		if err != nil {
			return sym.RUnknown
		}
		in.fallback = fb
	}
	c := in.fallback
	c.ClearErr()
	c.Push()
	for _, p := range in.pc {
		c.Assert(p)
	}
	c.Assert(neg)
	r := c.Check()
	c.Pop()
	in.Ex.mu.Lock()
	in.Ex.FallbackQueries++
	if r != sym.RUnknown {
		in.Ex.FallbackDecided++
	}
	in.Ex.mu.Unlock()
	if r == sym.RSat {
		// models are extracted from the primary solver; a sat verdict of the fallback alone cannot be replayed
		return sym.RUnknown
	}
	return r
}

func (in *Interp) crossCheck(neg *sym.Term) {
	c := in.cross
	c.Push()
	for _, p := range in.pc {
		c.Assert(p)
	}
	c.Assert(neg)
	r := c.Check()
	c.Pop()
	in.Ex.mu.Lock()
	in.Ex.CrossChecked++
	if r == sym.RSat {
		in.Ex.CrossDisagree++
		in.Ex.Inconclusive = append(in.Ex.Inconclusive, "solver disagreement: z3 unsat, cvc5 sat")
	}
	in.Ex.mu.Unlock()
}

func ndKnown(in *Interp, fn *ssa.Function, a []Value) Value {
	key := a[0].(*Str).conc
	c := a[1].(*sym.Term)
	if !in.Ex.Known[key] {
		return nil
	}
	if in.branch(c, "known region "+key) {
		in.knownKey = key
	}
	return nil
}

func ndObserve(in *Interp, fn *ssa.Function, a []Value) Value {
	name := a[0].(*Str).conc
	v := a[1]
	if iv, ok := v.(*IfaceV); ok {
		v = iv.val
	}
	in.observed = append(in.observed, Observation{Name: name, Val: v})
	return nil
}

// ---------- fmt.Sprintf model ----------

func (in *Interp) toGoAny(v Value) (interface{}, bool) {
	switch x := v.(type) {
	case *IfaceV:
		if x.typ == nil {
			return nil, true
		}
		g, ok := in.toGoAny(x.val)
		if !ok {
			return nil, false
		}
		// preserve named basic types where it matters little for %v/%d/%s
		return g, true
	case *sym.Term:
		if !x.IsConst() {
			return nil, false
		}
		if x.Sort == sym.SBool {
			return x.I != 0, true
		}
		return int(x.I), true
	case *Str:
		if x.kind != sConc {
			return nil, false
		}
		return x.conc, true
	case *SliceV:
		out := []interface{}{}
		strs := []string{}
		allStr := true
		for i := 0; i < x.len; i++ {
			g, ok := in.toGoAny(in.load(&Ptr{cell: x.arr, path: []int{x.off + i}}))
			if !ok {
				return nil, false
			}
			out = append(out, g)
			if s, isS := g.(string); isS {
				strs = append(strs, s)
			} else {
				allStr = false
			}
		}
		if allStr {
			if x.arr == nil {
				return []string(nil), true
			}
			return strs, true
		}
		return out, true
	case *HostV:
		if x.rv.IsValid() && x.rv.CanInterface() {
			return x.rv.Interface(), true
		}
	case *FloatV:
		return x.f, true
	}
	return nil, false
}

// trimCutset: strings.Trim* with a concrete ASCII cutset
func (in *Interp) trimCutset(a []Value, what string, left, right bool) Value {
	subj, cut := a[0].(*Str), a[1].(*Str)
	if cut.kind != sConc {
		in.fail("%s with a symbolic cutset", what)
	}
	if subj.kind == sConc {
		switch {
		case left && right:
			return concStr(strings.Trim(subj.conc, cut.conc))
		case left:
			return concStr(strings.TrimLeft(subj.conc, cut.conc))
		default:
			return concStr(strings.TrimRight(subj.conc, cut.conc))
		}
	}
	for i := 0; i < len(cut.conc); i++ {
		if cut.conc[i] >= 0x80 {
			in.fail("%s with a non-ASCII cutset", what)
		}
	}
	st := in.St
	pred := func(b *sym.Term) *sym.Term {
		ds := make([]*sym.Term, 0, len(cut.conc))
		for i := 0; i < len(cut.conc); i++ {
			ds = append(ds, st.Eq(b, st.Int(int64(cut.conc[i]))))
		}
		return st.Or(ds...)
	}
	return in.strTrimSides(subj, pred, what, left, right)
}

// builderWriter: the *strings.Builder behind an io.Writer argument (anything else is not modelled)
func (in *Interp) builderWriter(w Value) *Ptr {
	if iv, ok := w.(*IfaceV); ok {
		w = iv.val
	}
	p, ok := w.(*Ptr)
	if !ok || p.IsNil() {
		in.fail("fmt.Fprintf into an unmodelled writer %T", w)
	}
	if _, isBuilder := in.builders[p.cell]; !isBuilder {
		if sv, ok := in.load(p).(*StructV); !ok || sv.typ == nil || in.P.LookupType("strings", "Builder") == nil || !types.Identical(sv.typ, in.P.LookupType("strings", "Builder").Underlying()) {
			in.fail("fmt.Fprintf into an unmodelled writer")
		}
	}
	return p
}

func (in *Interp) sprintf(format *Str, args []Value) Value {
	if format.kind != sConc {
		in.fail("Sprintf with symbolic format")
	}
	allConc := true
	hs := make([]interface{}, len(args))
	for i, a := range args {
		g, ok := in.toGoAny(a)
		if !ok {
			allConc = false
			break
		}
		hs[i] = g
	}
	if allConc {
		return concStr(fmt.Sprintf(format.conc, hs...))
	}
	// symbolic: supported verbs %s %d %v %q(%q only concrete) %*d %%
	f := format.conc
	var out *Str = concStr("")
	ai := 0
	next := func() Value {
		if ai >= len(args) {
			in.fail("Sprintf: missing argument")
		}
		v := args[ai]
		ai++
		if iv, ok := v.(*IfaceV); ok {
			return iv.val
		}
		return v
	}
	for i := 0; i < len(f); i++ {
		if f[i] != '%' {
			j := i
			for j < len(f) && f[j] != '%' {
				j++
			}
			out = in.strConcat(out, concStr(f[i:j]))
			i = j - 1
			continue
		}
		i++
		if i >= len(f) {
			in.fail("Sprintf: bad format")
		}
		switch f[i] {
		case '%':
			out = in.strConcat(out, concStr("%"))
		case 's', 'v':
			v := next()
			out = in.strConcat(out, in.fmtValue(v))
		case 'd':
			v := next()
			t, ok := v.(*sym.Term)
			if !ok {
				in.fail("Sprintf %%d of %T", v)
			}
			out = in.strConcat(out, in.strItoa(t))
		case 'q':
			v := next()
			s, ok := v.(*Str)
			if !ok {
				in.fail("Sprintf %%q of %T", v)
			}
			if s.kind == sConc {
				out = in.strConcat(out, concStr(fmt.Sprintf("%q", s.conc)))
			} else if s.kind == sEnum {
				alts := make([]string, len(s.alts))
				for k, x := range s.alts {
					alts[k] = fmt.Sprintf("%q", x)
				}
				out = in.strConcat(out, &Str{kind: sEnum, sel: s.sel, alts: alts})
			} else {
				in.fail("Sprintf %%q of symbolic view")
			}
		case '*':
			if i+1 < len(f) && f[i+1] == 'd' {
				i++
				w := in.tryConcretize(next().(*sym.Term))
				t := next().(*sym.Term)
				digits := in.strItoa(t)
				// left pad with spaces to width w
				st := in.St
				dl := in.strLen(digits)
				pad := st.Ite(st.Lt(dl, w), st.Sub(w, dl), st.Int(0))
				sp := st.Int(' ')
				padStr := &Str{kind: sView, length: pad, max: -1, origin: "pad", at: func(i *sym.Term) *sym.Term { return sp }}
				if pad.IsConst() {
					padStr = concStr(strings.Repeat(" ", int(pad.I)))
				}
				out = in.strConcat(out, in.strConcat(padStr, digits))
			} else {
				in.fail("Sprintf: unsupported verb after *")
			}
		default:
			in.fail("Sprintf: unsupported verb %%%c with symbolic arguments", f[i])
		}
	}
	return out
}

func (in *Interp) fmtValue(v Value) *Str {
	switch x := v.(type) {
	case *Str:
		return x
	case *sym.Term:
		if x.Sort == sym.SBool {
			if x.IsConst() {
				return concStr(fmt.Sprint(x.I != 0))
			}
			in.fail("Sprintf %%v of symbolic bool")
		}
		return in.strItoa(x)
	case *SliceV:
		out := concStr("[")
		for i := 0; i < x.len; i++ {
			if i > 0 {
				out = in.strConcat(out, concStr(" "))
			}
			out = in.strConcat(out, in.fmtValue(in.load(&Ptr{cell: x.arr, path: []int{x.off + i}})))
		}
		return in.strConcat(out, concStr("]"))
	}
	g, ok := in.toGoAny(v)
	if ok {
		return concStr(fmt.Sprint(g))
	}
	in.fail("Sprintf of %T", v)
	return nil
}

// strItoa: decimal rendering of an int term; symbolic values are assumed (obligation) to lie in [0, 10^10).
func (in *Interp) strItoa(t *sym.Term) *Str {
	st := in.St
	t = in.tryConcretize(t)
	if t.IsConst() {
		return concStr(fmt.Sprint(t.I))
	}
	in.require(st.Le(st.Int(0), t), "itoa: negative symbolic value (unmodelled)")
	in.oblige(st.Lt(t, st.Int(10000000000)), "itoa range")
	pow := int64(1)
	ln := st.Int(10)
	pows := make([]int64, 10)
	for k := 0; k < 10; k++ {
		pows[k] = pow
		pow *= 10
	}
	for k := 9; k >= 1; k-- {
		ln = st.Ite(st.Lt(t, st.Int(pows[k])), st.Int(int64(k)), ln)
	}
	digit := make([]*sym.Term, 10)
	for k := 0; k < 10; k++ {
		digit[k] = st.Add(st.Int('0'), st.EMod(st.EDiv(t, st.Int(pows[k])), st.Int(10)))
	}
	return &Str{kind: sView, length: ln, max: 10, origin: "itoa", at: func(i *sym.Term) *sym.Term {
		// position i shows digit k = len-1-i
		k := st.Sub(st.Sub(ln, st.Int(1)), i)
		r := digit[9]
		for j := 8; j >= 0; j-- {
			r = st.Ite(st.Eq(k, st.Int(int64(j))), digit[j], r)
		}
		return r
	}}
}

var _ = types.Typ

// enumMap lifts a pure string function over a finite-domain string.
func enumMap(s *Str, f func(string) string) *Str {
	alts := make([]string, len(s.alts))
	for i, x := range s.alts {
		alts[i] = f(x)
	}
	return &Str{kind: sEnum, sel: s.sel, alts: alts, max: maxLen(alts)}
}

// enumSplit: strings.Split on a finite-domain string: fork on the number of parts, parts are finite-domain strings.
func (in *Interp) enumSplit(s *Str, sep string) Value {
	st := in.St
	split := make([][]string, len(s.alts))
	counts := map[int][]int{}
	var order []int
	for i, a := range s.alts {
		split[i] = strings.Split(a, sep)
		n := len(split[i])
		if _, ok := counts[n]; !ok {
			order = append(order, n)
		}
		counts[n] = append(counts[n], i)
	}
	conds := make([]*sym.Term, len(order))
	for k, n := range order {
		var ds []*sym.Term
		for _, i := range counts[n] {
			ds = append(ds, st.Eq(s.sel, st.Int(int64(i))))
		}
		conds[k] = st.Or(ds...)
	}
	d := in.choose(conds, "Split part count (enum)")
	n := order[d]
	vs := make([]Value, n)
	for j := 0; j < n; j++ {
		alts := make([]string, len(s.alts))
		for i := range s.alts {
			if len(split[i]) == n {
				alts[i] = split[i][j]
			}
		}
		vs[j] = normEnum(&Str{kind: sEnum, sel: s.sel, alts: alts, max: maxLen(alts)}, counts[n])
	}
	return in.mkSlice(vs)
}

// normEnum collapses an enum whose live alternatives (indices) all carry the same string into a concrete string.
func normEnum(s *Str, live []int) *Str {
	if len(live) == 0 {
		return s
	}
	first := s.alts[live[0]]
	for _, i := range live {
		if s.alts[i] != first {
			return s
		}
	}
	return concStr(first)
}

// ---------- strings.Reader + bufio.Scanner (line scanning) as a model over strings ----------

type symReader struct{ s *Str }
type symScanner struct {
	lines  []*Str
	idx    int
	limit  int       // maximum token size (bufio.MaxScanTokenSize unless Buffer was called)
	limitT *sym.Term // symbolic maximum given to Buffer (nil if concrete)
}

func registerScannerIntrinsics() {
	intrinsics["strings.NewReader"] = func(in *Interp, fn *ssa.Function, a []Value) Value {
		return &HostV{reflect.ValueOf(&symReader{s: a[0].(*Str)})}
	}
	intrinsics["bufio.NewScanner"] = func(in *Interp, fn *ssa.Function, a []Value) Value {
		var r *symReader
		switch x := a[0].(type) {
		case *IfaceV:
			if h, ok := x.val.(*HostV); ok {
				r, _ = h.rv.Interface().(*symReader)
			}
		case *HostV:
			r, _ = x.rv.Interface().(*symReader)
		}
		if r == nil {
			in.fail("bufio.NewScanner over an unmodelled reader")
		}
		in.stubs["bufio.Scanner over strings.Reader (ScanLines: split at \\n, final line without newline kept, one trailing \\r dropped; a concrete line of 64 KiB or more ends the scan; symbolic contents are far below that size)"] = true
		return &HostV{reflect.ValueOf(&symScanner{lines: in.scanLines(r.s), limit: 64 * 1024})}
	}
	intrinsics["(*bufio.Scanner).Scan"] = func(in *Interp, fn *ssa.Function, a []Value) Value {
		sc := a[0].(*HostV).rv.Interface().(*symScanner)
		if sc.idx < len(sc.lines) {
			// a (concrete) line that does not fit the scanner's buffer ends the scan (ErrTooLong)
			l := sc.lines[sc.idx]
			tooLong := false
			if sc.limitT != nil {
				tooLong = !in.branch(in.St.Lt(in.strLen(l), sc.limitT), "line fits the scanner's buffer")
			} else if l.kind == sConc {
				tooLong = len(l.conc) >= sc.limit
			}
			if tooLong {
				sc.lines = sc.lines[:sc.idx]
				sc.idx = len(sc.lines) + 1
				return in.St.False
			}
			sc.idx++
			return in.St.True
		}
		sc.idx = len(sc.lines) + 1
		return in.St.False
	}
	intrinsics["(*bufio.Scanner).Text"] = func(in *Interp, fn *ssa.Function, a []Value) Value {
		sc := a[0].(*HostV).rv.Interface().(*symScanner)
		if sc.idx >= 1 && sc.idx <= len(sc.lines) {
			return sc.lines[sc.idx-1]
		}
		return concStr("")
	}
	intrinsics["(*bufio.Scanner).Buffer"] = func(in *Interp, fn *ssa.Function, a []Value) Value {
		sc := a[0].(*HostV).rv.Interface().(*symScanner)
		mx, ok := a[2].(*sym.Term)
		if !ok {
			in.fail("bufio.Scanner.Buffer maximum is %T", a[2])
		}
		if mx.IsConst() {
			sc.limit, sc.limitT = int(mx.I), nil
		} else {
			sc.limitT = mx
		}
		return nil
	}
	intrinsics["(*bufio.Scanner).Err"] = func(in *Interp, fn *ssa.Function, a []Value) Value { return &IfaceV{} }
}

// scanLines models bufio.ScanLines over the whole input.
func (in *Interp) scanLines(s *Str) []*Str {
	st := in.St
	if s.kind == sConc {
		var out []*Str
		data := s.conc
		for len(data) > 0 {
			i := strings.IndexByte(data, '\n')
			var line string
			if i >= 0 {
				line, data = data[:i], data[i+1:]
			} else {
				line, data = data, ""
			}
			if len(line) > 0 && line[len(line)-1] == '\r' {
				line = line[:len(line)-1]
			}
			out = append(out, concStr(line))
		}
		return out
	}
	parts := in.strSplitByte(s, '\n')
	// a trailing newline does not start another line
	last := parts[len(parts)-1]
	if in.branch(st.Eq(in.strLen(last), st.Int(0)), "file ends with newline") {
		parts = parts[:len(parts)-1]
	}
	out := make([]*Str, len(parts))
	for i, p := range parts {
		v := in.toView(p)
		ln := v.length
		hasCR := st.And(st.Lt(st.Int(0), ln), st.Eq(v.at(st.Sub(ln, st.Int(1))), st.Int('\r')))
		nl := ln
		if !hasCR.IsFalse() && in.Sol.CheckWith(hasCR) != sym.RUnsat {
			nl = st.Ite(hasCR, st.Sub(ln, st.Int(1)), ln)
		}
		vv := v
		out[i] = &Str{kind: sView, length: nl, max: v.max, origin: v.origin, at: func(i *sym.Term) *sym.Term { return vv.at(i) }}
	}
	return out
}

// tryConcretize replaces an Int term by a constant when the path condition admits exactly one value for it.
func (in *Interp) tryConcretize(t *sym.Term) *sym.Term {
	if t.IsConst() || t.Sort != sym.SInt || in.spec {
		return t
	}
	vals, err := in.Sol.Values([]*sym.Term{t})
	if err != nil {
		return t
	}
	c := in.St.Int(vals[0])
	if in.Sol.CheckWith(in.St.Not(in.St.Eq(t, c))) == sym.RUnsat {
		return c
	}
	return t
}

func (in *Interp) syncMap(v Value) *MapV {
	p, ok := v.(*Ptr)
	if !ok || p.IsNil() {
		in.fail("sync.Map method on %T", v)
	}
	k, _ := concKey(p)
	if in.syncMaps == nil {
		in.syncMaps = map[string]*MapV{}
	}
	m, ok := in.syncMaps[k]
	if !ok {
		in.mapSeq++
		m = &MapV{id: in.mapSeq, conc: map[string]int{}}
		in.syncMaps[k] = m
	}
	return m
}
