package eng

import (
	"fmt"
	"go/types"
	"reflect"
	"sort"
	"strings"

	"golang.org/x/tools/go/ssa"

	"verif/gosym/sym"
)

// Value is one of:
//
//	*sym.Term            scalar (Int or Bool sort); all Go integer kinds, bool
//	*Str                 string
//	*Ptr                 pointer (nil pointer: (*Ptr)(nil) is never used; see NilPtr)
//	*StructV             struct value (copied on load/store)
//	*ArrayV              array value (copied on load/store)
//	*SliceV              slice header (nil slice: Arr == nil)
//	*MapV                map reference (nil map: (*MapV)(nil) wrapped in MapRef)
//	*Closure             func value
//	*IfaceV              interface value (nil interface: Typ == nil)
//	TupleV               multi-value
//	*HostV               opaque host object
//	*BytesV              []byte view backed by a Str (read-only)
//	*FloatV              float constant (concrete only)
type Value interface{}

type Cell struct {
	id  int
	val Value
	tag string // diagnostic
}

type Ptr struct {
	cell *Cell // nil => nil pointer
	path []int
	// fn pointers etc. are not modelled
	host *HostV // pointer into host memory (addressable reflect.Value), cell == nil
}

func (p *Ptr) IsNil() bool { return p == nil || (p.cell == nil && p.host == nil) }

var NilPtr = &Ptr{}

type StructV struct {
	typ    *types.Struct
	fields []Value
}

type ArrayV struct {
	elems []Value
}

type SliceV struct {
	arr *Cell // holds *ArrayV; nil => nil slice
	off int
	len int
	cap int
}

type mapEntry struct {
	key Value
	val Value
}

type MapV struct {
	id      int
	entries []mapEntry
	conc    map[string]int // canonical concrete key -> index into entries
	isNil   bool
}

type Closure struct {
	fn     *ssa.Function
	env    []Value
	native func(in *Interp, args []Value) Value // builtin-implemented func value
	name   string
}

type IfaceV struct {
	typ types.Type // dynamic type; nil => nil interface
	val Value
}

type TupleV []Value

type HostV struct {
	rv reflect.Value
}

type BytesV struct {
	s *Str
}

type FloatV struct{ f float64 }

// ---------- strings ----------

type strKind uint8

const (
	sConc strKind = iota
	sView
	sEnum
	sAtom
)

type Str struct {
	kind   strKind
	conc   string
	length *sym.Term
	at     func(i *sym.Term) *sym.Term
	max    int // static bound on length; -1 unknown
	sel    *sym.Term
	alts   []string
	atom   *sym.Term
	origin string // input name for views created by nd.*
	tight  bool
	parts  []*Str // for concatenations: the operands in order (used for segment-aligned equality)
}

func concStr(s string) *Str { return &Str{kind: sConc, conc: s, max: len(s)} }

func (s *Str) IsConc() bool { return s.kind == sConc }

func (s *Str) String() string {
	switch s.kind {
	case sConc:
		return fmt.Sprintf("%q", s.conc)
	case sView:
		return fmt.Sprintf("<view %s max=%d>", s.origin, s.max)
	case sEnum:
		return fmt.Sprintf("<enum %v>", s.alts)
	}
	return "<atom>"
}

// ---------- helpers ----------

func deepCopy(v Value) Value {
	switch x := v.(type) {
	case *StructV:
		n := &StructV{typ: x.typ, fields: make([]Value, len(x.fields))}
		for i, f := range x.fields {
			n.fields[i] = deepCopy(f)
		}
		return n
	case *ArrayV:
		n := &ArrayV{elems: make([]Value, len(x.elems))}
		for i, f := range x.elems {
			n.elems[i] = deepCopy(f)
		}
		return n
	}
	return v
}

// canonical key for concrete map keys; ok=false if the key has symbolic parts.
func concKey(v Value) (string, bool) {
	switch x := v.(type) {
	case *sym.Term:
		if x.IsConst() {
			return fmt.Sprintf("i%d", x.I), true
		}
		return "", false
	case *Str:
		if x.kind == sConc {
			return "s" + x.conc, true
		}
		return "", false
	case *Ptr:
		if x.IsNil() {
			return "pnil", true
		}
		if x.host != nil {
			return fmt.Sprintf("ph%x", x.host.rv.Pointer()), true
		}
		return fmt.Sprintf("p%d%v", x.cell.id, x.path), true
	case *IfaceV:
		if x.typ == nil {
			return "inil", true
		}
		k, ok := concKey(x.val)
		if !ok {
			return "", false
		}
		return "I" + x.typ.String() + "|" + k, true
	case *HostV:
		return hostKey(x), true
	case *StructV:
		var b strings.Builder
		b.WriteString("S{")
		for _, f := range x.fields {
			k, ok := concKey(f)
			if !ok {
				return "", false
			}
			b.WriteString(k)
			b.WriteByte(';')
		}
		b.WriteByte('}')
		return b.String(), true
	case *ArrayV:
		var b strings.Builder
		b.WriteString("A[")
		for _, f := range x.elems {
			k, ok := concKey(f)
			if !ok {
				return "", false
			}
			b.WriteString(k)
			b.WriteByte(';')
		}
		b.WriteByte(']')
		return b.String(), true
	case *Closure:
		return fmt.Sprintf("f%p", x), true
	case *MapV:
		return fmt.Sprintf("m%d", x.id), true
	}
	return "", false
}

func hostKey(h *HostV) string {
	rv := h.rv
	if !rv.IsValid() {
		return "hnil"
	}
	switch rv.Kind() {
	case reflect.Ptr, reflect.Map, reflect.Chan, reflect.Func, reflect.UnsafePointer:
		return fmt.Sprintf("h%s@%x", rv.Type().String(), rv.Pointer())
	case reflect.Interface:
		if rv.IsNil() {
			return "hnil"
		}
		return hostKey(&HostV{rv.Elem()})
	}
	if rv.CanInterface() {
		return fmt.Sprintf("h%s=%v", rv.Type().String(), rv.Interface())
	}
	return fmt.Sprintf("h%s?", rv.Type().String())
}

func sortedKeys(m map[string]int) []string {
	ks := make([]string, 0, len(m))
	for k := range m {
		ks = append(ks, k)
	}
	sort.Strings(ks)
	return ks
}
