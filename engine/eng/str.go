package eng

import (
	"go/token"
	"sync"

	"verif/gosym/sym"
)

// ---------- atom interning (shared by all workers) ----------

var (
	atomMu  sync.Mutex
	atomIDs = map[string]int64{}
	atomStr = map[int64]string{}
)

const atomBase = 1000000 // ids of interned concrete strings start here; free atoms take any Int

func internAtom(s string) int64 {
	atomMu.Lock()
	defer atomMu.Unlock()
	if id, ok := atomIDs[s]; ok {
		return id
	}
	id := int64(atomBase + len(atomIDs))
	atomIDs[s] = id
	atomStr[id] = s
	return id
}

func atomString(id int64) (string, bool) {
	atomMu.Lock()
	defer atomMu.Unlock()
	s, ok := atomStr[id]
	return s, ok
}

// ---------- basic string ops ----------

func (in *Interp) strLen(s *Str) *sym.Term {
	st := in.St
	switch s.kind {
	case sConc:
		return st.Int(int64(len(s.conc)))
	case sView:
		return s.length
	case sEnum:
		r := st.Int(int64(len(s.alts[len(s.alts)-1])))
		for i := len(s.alts) - 2; i >= 0; i-- {
			r = st.Ite(st.Eq(s.sel, st.Int(int64(i))), st.Int(int64(len(s.alts[i]))), r)
		}
		return r
	}
	in.fail("len of atom string")
	return nil
}

func (in *Interp) strAt(s *Str, i *sym.Term) *sym.Term {
	st := in.St
	switch s.kind {
	case sConc:
		if i.IsConst() {
			if i.I < 0 || i.I >= int64(len(s.conc)) {
				return st.Int(0)
			}
			return st.Int(int64(s.conc[i.I]))
		}
		// ite chain over positions
		r := st.Int(0)
		for k := len(s.conc) - 1; k >= 0; k-- {
			r = st.Ite(st.Eq(i, st.Int(int64(k))), st.Int(int64(s.conc[k])), r)
		}
		return r
	case sView:
		return s.at(i)
	case sEnum:
		var r *sym.Term
		for k := len(s.alts) - 1; k >= 0; k-- {
			v := in.strAt(concStr(s.alts[k]), i)
			if r == nil {
				r = v
			} else {
				r = st.Ite(st.Eq(s.sel, st.Int(int64(k))), v, r)
			}
		}
		return r
	}
	in.fail("index of atom string")
	return nil
}

func (in *Interp) toView(s *Str) *Str {
	if s.kind == sView {
		return s
	}
	if s.kind == sAtom {
		in.fail("atom string used in a byte-level operation")
	}
	mx := 0
	if s.kind == sConc {
		mx = len(s.conc)
	} else {
		for _, a := range s.alts {
			if len(a) > mx {
				mx = len(a)
			}
		}
	}
	src := s
	return &Str{kind: sView, length: in.strLen(s), max: mx, at: func(i *sym.Term) *sym.Term { return in.strAt(src, i) }, origin: "conv"}
}

func (in *Interp) strFromBytes(bs []*sym.Term) *Str {
	st := in.St
	elems := bs
	return &Str{kind: sView, length: st.Int(int64(len(bs))), max: len(bs), origin: "bytes", at: func(i *sym.Term) *sym.Term {
		if i.IsConst() {
			if i.I >= 0 && i.I < int64(len(elems)) {
				return elems[i.I]
			}
			return st.Int(0)
		}
		r := st.Int(0)
		for k := len(elems) - 1; k >= 0; k-- {
			r = st.Ite(st.Eq(i, st.Int(int64(k))), elems[k], r)
		}
		return r
	}}
}

func (in *Interp) strIndex(s *Str, i *sym.Term) Value {
	st := in.St
	ln := in.strLen(s)
	in.require(st.And(st.Le(st.Int(0), i), st.Lt(i, ln)), "index out of range (string)")
	return in.strAt(s, i)
}

func (in *Interp) strSlice(s *Str, lo, hi *sym.Term) *Str {
	st := in.St
	ln := in.strLen(s)
	if lo == nil {
		lo = st.Int(0)
	}
	if hi == nil {
		hi = ln
	}
	in.require(st.And(st.Le(st.Int(0), lo), st.Le(lo, hi), st.Le(hi, ln)), "slice bounds out of range (string)")
	if s.kind == sConc && lo.IsConst() && hi.IsConst() {
		return concStr(s.conc[lo.I:hi.I])
	}
	v := in.toView(s)
	mx := v.max
	if hi.IsConst() && lo.IsConst() {
		mx = int(hi.I - lo.I)
	} else if hi.IsConst() && (mx < 0 || int(hi.I) < mx) {
		mx = int(hi.I)
	}
	nl := st.Sub(hi, lo)
	if nl.IsConst() {
		mx = int(nl.I)
	}
	l := lo
	return &Str{kind: sView, length: nl, max: mx, origin: v.origin, at: func(i *sym.Term) *sym.Term { return v.at(st.Add(l, i)) }}
}

func (in *Interp) strConcat(a, b *Str) *Str {
	st := in.St
	if a.kind == sConc && b.kind == sConc {
		return concStr(a.conc + b.conc)
	}
	if a.kind == sConc && a.conc == "" {
		return b
	}
	if b.kind == sConc && b.conc == "" {
		return a
	}
	va, vb := in.toView(a), in.toView(b)
	mx := -1
	if va.max >= 0 && vb.max >= 0 {
		mx = va.max + vb.max
	}
	la := va.length
	var parts []*Str
	if a.parts != nil {
		parts = append(parts, a.parts...)
	} else {
		parts = append(parts, a)
	}
	if b.parts != nil {
		parts = append(parts, b.parts...)
	} else {
		parts = append(parts, b)
	}
	return &Str{kind: sView, length: st.Add(va.length, vb.length), max: mx, origin: "concat", parts: parts, at: func(i *sym.Term) *sym.Term {
		if i.IsConst() && la.IsConst() {
			if i.I < la.I {
				return va.at(i)
			}
			return vb.at(st.Int(i.I - la.I))
		}
		return st.Ite(st.Lt(i, la), va.at(i), vb.at(st.Sub(i, la)))
	}}
}

// enumOrdered: a < b (<=, >, >=) for finite-domain strings as a Bool term: the disjunction of the selector pairs whose
// alternatives compare that way; nil when an operand is neither an enum nor concrete.
func (in *Interp) enumOrdered(op token.Token, a, b *Str) *sym.Term {
	st := in.St
	alts := func(x *Str) ([]string, *sym.Term) {
		switch x.kind {
		case sConc:
			return []string{x.conc}, nil
		case sEnum:
			if x.parts != nil {
				return nil, nil
			}
			return x.alts, x.sel
		}
		return nil, nil
	}
	aa, sa := alts(a)
	ba, sb := alts(b)
	if aa == nil || ba == nil {
		return nil
	}
	var ds []*sym.Term
	for i, x := range aa {
		for j, y := range ba {
			var r bool
			switch op {
			case token.LSS:
				r = x < y
			case token.LEQ:
				r = x <= y
			case token.GTR:
				r = x > y
			case token.GEQ:
				r = x >= y
			}
			if !r {
				continue
			}
			c := st.True
			if sa != nil {
				c = st.And(c, st.Eq(sa, st.Int(int64(i))))
			}
			if sb != nil {
				c = st.And(c, st.Eq(sb, st.Int(int64(j))))
			}
			ds = append(ds, c)
		}
	}
	if len(ds) == 0 {
		return st.False
	}
	return st.Or(ds...)
}

// strEq: Go string equality as a Bool term.
func (in *Interp) strEq(a, b *Str) *sym.Term {
	st := in.St
	if a == b {
		return st.True
	}
	if a.kind == sConc && b.kind == sConc {
		return st.Bool(a.conc == b.conc)
	}
	if a.kind == sAtom || b.kind == sAtom {
		ida, oka := in.atomID(a)
		idb, okb := in.atomID(b)
		if !oka || !okb {
			in.fail("atom string compared with a non-atom symbolic string")
		}
		return st.Eq(ida, idb)
	}
	if a.kind == sEnum && b.kind == sConc {
		return in.enumEqConc(a, b.conc)
	}
	if b.kind == sEnum && a.kind == sConc {
		return in.enumEqConc(b, a.conc)
	}
	if a.kind == sEnum && b.kind == sEnum {
		var ds []*sym.Term
		for i, x := range a.alts {
			for j, y := range b.alts {
				if x == y {
					ds = append(ds, st.And(st.Eq(a.sel, st.Int(int64(i))), st.Eq(b.sel, st.Int(int64(j)))))
				}
			}
		}
		return st.Or(ds...)
	}
	if a.parts != nil || b.parts != nil {
		if r := in.ropeEq(a, b); r != nil {
			return r
		}
	}
	// view vs concrete: no bound needed
	if b.kind == sConc {
		return in.viewEqConc(in.toView(a), b.conc)
	}
	if a.kind == sConc {
		return in.viewEqConc(in.toView(b), a.conc)
	}
	va, vb := in.toView(a), in.toView(b)
	if va.max < 0 && vb.max < 0 {
		in.tightenMax(va)
	}
	n := va.max
	if n < 0 || (vb.max >= 0 && vb.max < n) {
		n = vb.max
	}
	if n < 0 {
		in.fail("equality of two unbounded symbolic strings")
	}
	cs := []*sym.Term{st.Eq(va.length, vb.length)}
	for i := 0; i < n; i++ {
		ii := st.Int(int64(i))
		cs = append(cs, st.Implies(st.Lt(ii, va.length), st.Eq(va.at(ii), vb.at(ii))))
	}
	return st.And(cs...)
}

func (in *Interp) enumEqConc(e *Str, c string) *sym.Term {
	st := in.St
	var ds []*sym.Term
	for i, x := range e.alts {
		if x == c {
			ds = append(ds, st.Eq(e.sel, st.Int(int64(i))))
		}
	}
	return st.Or(ds...)
}

func (in *Interp) viewEqConc(v *Str, c string) *sym.Term {
	st := in.St
	if v.max >= 0 && len(c) > v.max {
		return st.False
	}
	cs := []*sym.Term{st.Eq(v.length, st.Int(int64(len(c))))}
	for i := 0; i < len(c); i++ {
		cs = append(cs, st.Eq(v.at(st.Int(int64(i))), st.Int(int64(c[i]))))
	}
	return st.And(cs...)
}

func (in *Interp) atomID(s *Str) (*sym.Term, bool) {
	switch s.kind {
	case sAtom:
		return s.atom, true
	case sConc:
		return in.St.Int(internAtom(s.conc)), true
	case sEnum:
		st := in.St
		var r *sym.Term
		for k := len(s.alts) - 1; k >= 0; k-- {
			id := st.Int(internAtom(s.alts[k]))
			if r == nil {
				r = id
			} else {
				r = st.Ite(st.Eq(s.sel, st.Int(int64(k))), id, r)
			}
		}
		return r, true
	}
	return nil, false
}

// ---------- derived predicates over views (expanded to the static bound) ----------

func (in *Interp) needMax(v *Str, what string) int {
	if v.max < 0 || v.max > in.Ex.TightenAbove {
		in.tightenMax(v)
	}
	if v.max < 0 {
		in.fail("%s needs a statically bounded string", what)
	}
	return v.max
}

// tightenMax asks the solver for the least upper bound of the view's length under the path condition
// (derived views over-approximate: a Join of Split parts is no longer than the original string).
func (in *Interp) tightenMax(v *Str) {
	if v.tight || in.spec {
		return
	}
	v.tight = true
	st := in.St
	if v.length.IsConst() {
		v.max = int(v.length.I)
		return
	}
	hi := v.max
	if hi < 0 {
		hi = 512
		if in.Sol.CheckWith(st.Lt(st.Int(int64(hi)), v.length)) != sym.RUnsat {
			return
		}
	}
	lo := 0 // invariant: len <= hi always; len > lo-1 possible
	for lo < hi {
		mid := (lo + hi) / 2
		if in.Sol.CheckWith(st.Lt(st.Int(int64(mid)), v.length)) == sym.RUnsat {
			hi = mid
		} else {
			lo = mid + 1
		}
	}
	v.max = hi
}

func (in *Interp) isSpaceByte(b *sym.Term) *sym.Term {
	st := in.St
	// ASCII whitespace per unicode.IsSpace restricted to bytes < 0x80: \t \n \v \f \r and space
	return st.Or(st.And(st.Le(st.Int(9), b), st.Le(b, st.Int(13))), st.Eq(b, st.Int(32)))
}

// strTrimSpace models strings.TrimSpace for ASCII input.
func (in *Interp) strTrimSpace(s *Str) *Str {
	return in.strTrimFunc(s, in.isSpaceByte, "TrimSpace")
}

func (in *Interp) strTrimFunc(s *Str, pred func(*sym.Term) *sym.Term, what string) *Str {
	return in.strTrimSides(s, pred, what, true, true)
}

// strTrimSides: strings.Trim / TrimLeft / TrimRight for a byte predicate (ASCII cutsets)
func (in *Interp) strTrimSides(s *Str, pred0 func(*sym.Term) *sym.Term, what string, left, right bool) *Str {
	st := in.St
	never := func(*sym.Term) *sym.Term { return st.False }
	pred := pred0
	if !left {
		pred = never
	}
	if s.kind == sAtom {
		in.fail("%s of atom", what)
	}
	v := in.toView(s)
	n := in.needMax(v, what)
	// lead = number of leading bytes satisfying pred
	lead := v.length // if all n satisfy
	// build from the back: L(i) = ite(i<len && pred(at i), L(i+1), i)
	var L *sym.Term = st.Int(int64(n))
	L = v.length
	for i := n - 1; i >= 0; i-- {
		ii := st.Int(int64(i))
		L = st.Ite(st.And(st.Lt(ii, v.length), pred(v.at(ii))), L, st.Ite(st.Lt(ii, v.length), ii, v.length))
	}
	lead = L
	pred = pred0
	if !right {
		pred = never
	}
	// end = smallest e >= lead such that all bytes in [e,len) satisfy pred
	// E(j) for j = n..0: if j > len: E(j-1); else if j > lead && pred(at(j-1)): E(j-1) else j
	E := st.Int(0)
	for j := 1; j <= n; j++ {
		jj := st.Int(int64(j))
		jm := st.Int(int64(j - 1))
		stay := st.And(st.Le(jj, v.length), st.Not(st.And(st.Lt(lead, jj), pred(v.at(jm)))))
		// E_j = ite(j>len, E_{j-1}, ite(strip, E_{j-1}, j))
		E = st.Ite(stay, jj, E)
	}
	// E currently computes: the largest j<=len with not-strip ... need care: scanning upward, last j that "stays" wins only if
	// all larger j' <= len strip; since later iterations override earlier ones, E = max{ j<=len : !(j>lead && pred(at(j-1))) }.
	// For j <= lead the condition !(j>lead ...) is true, so E >= min(lead,len) = lead.  That is exactly the trimmed end.
	if lead.IsConst() && E.IsConst() && s.kind == sConc {
		return concStr(s.conc[lead.I:E.I])
	}
	l := lead
	return &Str{kind: sView, length: st.Sub(E, l), max: n, origin: v.origin, at: func(i *sym.Term) *sym.Term { return v.at(st.Add(l, i)) }}
}

func (in *Interp) strMapBytes(s *Str, f func(*sym.Term) *sym.Term) *Str {
	v := in.toView(s)
	return &Str{kind: sView, length: v.length, max: v.max, origin: v.origin, at: func(i *sym.Term) *sym.Term { return f(v.at(i)) }}
}

func (in *Interp) upperByte(b *sym.Term) *sym.Term {
	st := in.St
	if b.IsConst() {
		if b.I >= 'a' && b.I <= 'z' {
			return st.Int(b.I - 32)
		}
		return b
	}
	return st.Ite(st.And(st.Le(st.Int('a'), b), st.Le(b, st.Int('z'))), st.Sub(b, st.Int(32)), b)
}

func (in *Interp) lowerByte(b *sym.Term) *sym.Term {
	st := in.St
	if b.IsConst() {
		if b.I >= 'A' && b.I <= 'Z' {
			return st.Int(b.I + 32)
		}
		return b
	}
	return st.Ite(st.And(st.Le(st.Int('A'), b), st.Le(b, st.Int('Z'))), st.Add(b, st.Int(32)), b)
}

// matchAt: bytes of sub occur in v starting at offset off (off symbolic or const); sub may be view (bounded) or concrete.
func (in *Interp) matchAt(v *Str, off *sym.Term, sub *Str) *sym.Term {
	st := in.St
	if sub.kind == sConc {
		cs := []*sym.Term{st.Le(st.Int(0), off), st.Le(st.Add(off, st.Int(int64(len(sub.conc)))), v.length)}
		for j := 0; j < len(sub.conc); j++ {
			cs = append(cs, st.Eq(v.at(st.Add(off, st.Int(int64(j)))), st.Int(int64(sub.conc[j]))))
		}
		return st.And(cs...)
	}
	sv := in.toView(sub)
	m := in.needMax(sv, "substring match")
	cs := []*sym.Term{st.Le(st.Int(0), off), st.Le(st.Add(off, sv.length), v.length)}
	for j := 0; j < m; j++ {
		jj := st.Int(int64(j))
		cs = append(cs, st.Implies(st.Lt(jj, sv.length), st.Eq(v.at(st.Add(off, jj)), sv.at(jj))))
	}
	return st.And(cs...)
}

func (in *Interp) strHasPrefix(s, p *Str) *sym.Term {
	st := in.St
	if s.kind == sConc && p.kind == sConc {
		return st.Bool(len(s.conc) >= len(p.conc) && s.conc[:len(p.conc)] == p.conc)
	}
	if s.kind == sEnum && p.kind == sConc {
		var ds []*sym.Term
		for i, a := range s.alts {
			if len(a) >= len(p.conc) && a[:len(p.conc)] == p.conc {
				ds = append(ds, st.Eq(s.sel, st.Int(int64(i))))
			}
		}
		return st.Or(ds...)
	}
	return in.matchAt(in.toView(s), st.Int(0), p)
}

func (in *Interp) strHasSuffix(s, p *Str) *sym.Term {
	st := in.St
	if s.kind == sConc && p.kind == sConc {
		return st.Bool(len(s.conc) >= len(p.conc) && s.conc[len(s.conc)-len(p.conc):] == p.conc)
	}
	if s.kind == sEnum && p.kind == sConc {
		var ds []*sym.Term
		for i, a := range s.alts {
			if len(a) >= len(p.conc) && a[len(a)-len(p.conc):] == p.conc {
				ds = append(ds, st.Eq(s.sel, st.Int(int64(i))))
			}
		}
		return st.Or(ds...)
	}
	v := in.toView(s)
	return in.matchAt(v, st.Sub(v.length, in.strLen(p)), p)
}

func (in *Interp) strContains(s, sub *Str) *sym.Term {
	st := in.St
	if s.kind == sConc && sub.kind == sConc {
		return st.Bool(containsStr(s.conc, sub.conc))
	}
	if s.kind == sEnum && sub.kind == sConc {
		var ds []*sym.Term
		for i, a := range s.alts {
			if containsStr(a, sub.conc) {
				ds = append(ds, st.Eq(s.sel, st.Int(int64(i))))
			}
		}
		return st.Or(ds...)
	}
	if s.kind == sConc && sub.kind == sEnum {
		var ds []*sym.Term
		for i, a := range sub.alts {
			if containsStr(s.conc, a) {
				ds = append(ds, st.Eq(sub.sel, st.Int(int64(i))))
			}
		}
		return st.Or(ds...)
	}
	if s.kind == sEnum && sub.kind == sEnum {
		var ds []*sym.Term
		for i, a := range s.alts {
			for j, b := range sub.alts {
				if containsStr(a, b) {
					ds = append(ds, st.And(st.Eq(s.sel, st.Int(int64(i))), st.Eq(sub.sel, st.Int(int64(j)))))
				}
			}
		}
		return st.Or(ds...)
	}
	v := in.toView(s)
	n := in.needMax(v, "Contains")
	var ds []*sym.Term
	for i := 0; i <= n; i++ {
		ds = append(ds, in.matchAt(v, st.Int(int64(i)), sub))
	}
	return st.Or(ds...)
}

func containsStr(a, b string) bool {
	for i := 0; i+len(b) <= len(a); i++ {
		if a[i:i+len(b)] == b {
			return true
		}
	}
	return false
}

// strCountByte: number of occurrences of byte c (const) in s.
func (in *Interp) strCountByte(s *Str, c int64) *sym.Term {
	st := in.St
	v := in.toView(s)
	n := in.needMax(v, "count")
	cnt := st.Int(0)
	for i := 0; i < n; i++ {
		ii := st.Int(int64(i))
		cnt = st.Add(cnt, st.Ite(st.And(st.Lt(ii, v.length), st.Eq(v.at(ii), st.Int(c))), st.Int(1), st.Int(0)))
	}
	return cnt
}

// strSplitByte models strings.Split(s, sep) for a one-byte separator; forks on the number of parts
// (bounded by Ex.MaxSplit; exceeding it is an unwinding failure).
func (in *Interp) strSplitByte(s *Str, c int64) []*Str {
	st := in.St
	if s.kind == sConc {
		var out []*Str
		start := 0
		for i := 0; i < len(s.conc); i++ {
			if int64(s.conc[i]) == c {
				out = append(out, concStr(s.conc[start:i]))
				start = i + 1
			}
		}
		return append(out, concStr(s.conc[start:]))
	}
	v := in.toView(s)
	n := in.needMax(v, "Split")
	// prefix counts
	cnt := make([]*sym.Term, n+1)
	isSep := make([]*sym.Term, n)
	cnt[0] = st.Int(0)
	for i := 0; i < n; i++ {
		ii := st.Int(int64(i))
		isSep[i] = st.And(st.Lt(ii, v.length), st.Eq(v.at(ii), st.Int(c)))
		cnt[i+1] = st.Add(cnt[i], st.Ite(isSep[i], st.Int(1), st.Int(0)))
	}
	total := cnt[n]
	maxParts := in.Ex.MaxSplit
	if maxParts > n+1 {
		maxParts = n + 1
	}
	conds := make([]*sym.Term, 0, maxParts+1)
	for k := 0; k < maxParts; k++ {
		conds = append(conds, st.Eq(total, st.Int(int64(k))))
	}
	conds = append(conds, st.Le(st.Int(int64(maxParts)), total))
	d := in.choose(conds, "Split part count")
	if d == maxParts {
		panic(inconclusive{"unwinding assertion: strings.Split yields more than the bounded number of parts"})
	}
	// position of the k-th separator (0-based): first i with isSep[i] && cnt[i]==k
	sepPos := func(k int) *sym.Term {
		r := v.length
		for i := n - 1; i >= 0; i-- {
			r = st.Ite(st.And(isSep[i], st.Eq(cnt[i], st.Int(int64(k)))), st.Int(int64(i)), r)
		}
		return r
	}
	parts := make([]*Str, 0, d+1)
	start := st.Int(0)
	for k := 0; k <= d; k++ {
		var end *sym.Term
		if k == d {
			end = v.length
		} else {
			end = sepPos(k)
		}
		s0 := start
		parts = append(parts, &Str{kind: sView, length: st.Sub(end, s0), max: n, origin: v.origin, at: func(i *sym.Term) *sym.Term { return v.at(st.Add(s0, i)) }})
		start = st.Add(end, st.Int(1))
	}
	return parts
}

// ropeEq compares two concatenations segment by segment when their segment boundaries line up
// (identical length terms). Returns nil when they do not line up (caller falls back to the byte-wise expansion).
func (in *Interp) ropeEq(a, b *Str) *sym.Term {
	st := in.St
	pa, pb := a.parts, b.parts
	if pa == nil {
		pa = []*Str{a}
	}
	if pb == nil {
		pb = []*Str{b}
	}
	pa = append([]*Str(nil), pa...)
	pb = append([]*Str(nil), pb...)
	var conds []*sym.Term
	i, j := 0, 0
	for i < len(pa) && j < len(pb) {
		x, y := pa[i], pb[j]
		if x == y {
			i++
			j++
			continue
		}
		if x.kind == sConc && x.conc == "" {
			i++
			continue
		}
		if y.kind == sConc && y.conc == "" {
			j++
			continue
		}
		if x.kind == sConc && y.kind == sConc {
			n := len(x.conc)
			if len(y.conc) < n {
				n = len(y.conc)
			}
			if x.conc[:n] != y.conc[:n] {
				return st.False
			}
			if len(x.conc) == n {
				i++
			} else {
				pa[i] = concStr(x.conc[n:])
			}
			if len(y.conc) == n {
				j++
			} else {
				pb[j] = concStr(y.conc[n:])
			}
			continue
		}
		if x.kind == sAtom || y.kind == sAtom {
			return nil
		}
		lx, ly := in.strLen(x), in.strLen(y)
		if lx == ly {
			if x.parts != nil || y.parts != nil {
				return nil
			}
			conds = append(conds, in.strEq(x, y))
			i++
			j++
			continue
		}
		return nil
	}
	for ; i < len(pa); i++ {
		conds = append(conds, st.Eq(in.strLen(pa[i]), st.Int(0)))
	}
	for ; j < len(pb); j++ {
		conds = append(conds, st.Eq(in.strLen(pb[j]), st.Int(0)))
	}
	return st.And(conds...)
}
