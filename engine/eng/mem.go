package eng

import (
	"go/types"
	"reflect"

	"golang.org/x/tools/go/ssa"

	"verif/gosym/sym"
)

// chooseFree forks n ways without any condition (pure nondeterminism, e.g. iteration order).
func (in *Interp) chooseFree(n int, what string) int {
	if n <= 1 {
		return 0
	}
	if in.tpos < len(in.trace) {
		d := in.trace[in.tpos]
		in.tpos++
		in.taken = append(in.taken, d)
		return d
	}
	if len(in.taken) >= in.Ex.MaxDecisions {
		panic(inconclusive{"unwinding assertion: too many decisions at " + what})
	}
	for j := 1; j < n; j++ {
		nt := make([]int, len(in.taken)+1)
		copy(nt, in.taken)
		nt[len(in.taken)] = j
		in.Ex.push(nt)
	}
	in.taken = append(in.taken, 0)
	return 0
}

// concretize an index term to a concrete int in [0,n) by forking over feasible values;
// out-of-range is a Go panic path.
func (in *Interp) concretizeIndex(idx *sym.Term, n int, what string) int {
	if idx.IsConst() {
		if idx.I < 0 || idx.I >= int64(n) {
			panic(&goPanic{msg: "runtime error: index out of range", pos: in.curPos})
		}
		return int(idx.I)
	}
	st := in.St
	conds := make([]*sym.Term, 0, n+1)
	for i := 0; i < n; i++ {
		conds = append(conds, st.Eq(idx, st.Int(int64(i))))
	}
	conds = append(conds, st.Or(st.Lt(idx, st.Int(0)), st.Le(st.Int(int64(n)), idx)))
	d := in.choose(conds, "index "+what)
	if d == n {
		panic(&goPanic{msg: "runtime error: index out of range", pos: in.curPos})
	}
	return d
}

func (in *Interp) indexAddr(fr *frame, x *ssa.IndexAddr) Value {
	base := in.get(fr, x.X)
	idx := in.get(fr, x.Index).(*sym.Term)
	switch b := base.(type) {
	case *SliceV:
		i := in.concretizeIndex(idx, b.len, in.posStr(x.Pos(), fr.fn))
		return &Ptr{cell: b.arr, path: []int{b.off + i}}
	case *Ptr: // pointer to array
		if b.IsNil() {
			panic(&goPanic{msg: "runtime error: invalid memory address or nil pointer dereference", pos: in.curPos})
		}
		n := int(x.X.Type().Underlying().(*types.Pointer).Elem().Underlying().(*types.Array).Len())
		i := in.concretizeIndex(idx, n, in.posStr(x.Pos(), fr.fn))
		np := make([]int, len(b.path)+1)
		copy(np, b.path)
		np[len(b.path)] = i
		return &Ptr{cell: b.cell, path: np}
	case *BytesV:
		in.fail("IndexAddr into []byte view (mutation of string-backed bytes) at %s", in.posStr(x.Pos(), fr.fn))
	case *HostV:
		if b.rv.Kind() == reflect.Slice {
			i := in.concretizeIndex(idx, b.rv.Len(), "host slice")
			return &Ptr{host: &HostV{b.rv.Index(i).Addr()}}
		}
	}
	in.fail("IndexAddr on %T", base)
	return nil
}

func (in *Interp) index(fr *frame, x *ssa.Index) Value {
	base := in.get(fr, x.X)
	idx := in.get(fr, x.Index).(*sym.Term)
	switch b := base.(type) {
	case *Str:
		return in.strIndex(b, idx)
	case *ArrayV:
		i := in.concretizeIndex(idx, len(b.elems), "array")
		return deepCopy(b.elems[i])
	}
	in.fail("Index on %T", base)
	return nil
}

func (in *Interp) sliceOp(fr *frame, x *ssa.Slice) Value {
	base := in.get(fr, x.X)
	var lo, hi, mx *sym.Term
	if x.Low != nil {
		lo = in.get(fr, x.Low).(*sym.Term)
	}
	if x.High != nil {
		hi = in.get(fr, x.High).(*sym.Term)
	}
	if x.Max != nil {
		mx = in.get(fr, x.Max).(*sym.Term)
	}
	switch b := base.(type) {
	case *Str:
		return in.strSlice(b, lo, hi)
	case *BytesV:
		return &BytesV{s: in.strSlice(b.s, lo, hi)}
	case *SliceV:
		l, h, m := 0, b.len, b.cap
		if lo != nil {
			l = in.concretizeBound(lo, b.cap)
		}
		if hi != nil {
			h = in.concretizeBound(hi, b.cap)
		}
		if mx != nil {
			m = in.concretizeBound(mx, b.cap)
		}
		if l > h || h > m || m > b.cap {
			panic(&goPanic{msg: "runtime error: slice bounds out of range", pos: in.curPos})
		}
		if b.arr == nil {
			return &SliceV{}
		}
		return &SliceV{arr: b.arr, off: b.off + l, len: h - l, cap: m - l}
	case *Ptr: // *array
		arr := in.load(b).(*ArrayV)
		n := len(arr.elems)
		l, h := 0, n
		if lo != nil {
			l = in.concretizeBound(lo, n)
		}
		if hi != nil {
			h = in.concretizeBound(hi, n)
		}
		if l > h {
			panic(&goPanic{msg: "runtime error: slice bounds out of range", pos: in.curPos})
		}
		if len(b.path) != 0 {
			in.fail("slicing nested array")
		}
		return &SliceV{arr: b.cell, off: l, len: h - l, cap: n - l}
	}
	in.fail("Slice on %T", base)
	return nil
}

func (in *Interp) concretizeBound(t *sym.Term, max int) int {
	if t.IsConst() {
		if t.I < 0 || t.I > int64(max) {
			panic(&goPanic{msg: "runtime error: slice bounds out of range", pos: in.curPos})
		}
		return int(t.I)
	}
	return in.concretizeIndex(t, max+1, "slice bound")
}

// ---------- maps ----------

func (in *Interp) keyEq(a, b Value) *sym.Term { return in.equal(a, b) }

// mapFind returns the index of the entry equal to key on this path, or -1.
func (in *Interp) mapFind(m *MapV, key Value) int {
	if m.isNil || len(m.entries) == 0 {
		return -1
	}
	ck, isConc := concKey(key)
	var cands []int
	var conds []*sym.Term
	if isConc {
		if i, ok := m.conc[ck]; ok {
			return i
		}
		for i, e := range m.entries {
			if _, c := concKey(e.key); c {
				continue
			}
			eq := in.keyEq(e.key, key)
			if eq.IsTrue() {
				return i
			}
			if !eq.IsFalse() {
				cands = append(cands, i)
				conds = append(conds, eq)
			}
		}
	} else {
		for i, e := range m.entries {
			eq := in.keyEq(e.key, key)
			if eq.IsTrue() {
				return i
			}
			if !eq.IsFalse() {
				cands = append(cands, i)
				conds = append(conds, eq)
			}
		}
	}
	if len(cands) == 0 {
		return -1
	}
	// keys in the map are pairwise distinct under pc, so the eq conditions are mutually exclusive
	none := make([]*sym.Term, len(conds))
	for i, c := range conds {
		none[i] = in.St.Not(c)
	}
	all := append(append([]*sym.Term{}, conds...), in.St.And(none...))
	d := in.choose(all, "map key match")
	if d == len(cands) {
		return -1
	}
	return cands[d]
}

func (in *Interp) mapUpdate(mv Value, key, val Value) {
	m, ok := mv.(*MapV)
	if !ok {
		in.fail("MapUpdate on %T", mv)
	}
	if m.isNil {
		panic(&goPanic{msg: "assignment to entry in nil map", pos: in.curPos})
	}
	val = deepCopy(val)
	if i := in.mapFind(m, key); i >= 0 {
		m.entries[i].val = val
		return
	}
	m.entries = append(m.entries, mapEntry{key: deepCopy(key), val: val})
	if ck, c := concKey(key); c {
		m.conc[ck] = len(m.entries) - 1
	}
}

func (in *Interp) mapDelete(m *MapV, key Value) {
	if m.isNil {
		return
	}
	i := in.mapFind(m, key)
	if i < 0 {
		return
	}
	m.entries = append(m.entries[:i], m.entries[i+1:]...)
	m.conc = map[string]int{}
	for j, e := range m.entries {
		if ck, c := concKey(e.key); c {
			m.conc[ck] = j
		}
	}
}

func (in *Interp) lookup(fr *frame, x *ssa.Lookup) Value {
	base := in.get(fr, x.X)
	key := in.get(fr, x.Index)
	switch m := base.(type) {
	case *Str:
		return in.strIndex(m, key.(*sym.Term))
	case *MapV:
		vt := x.X.Type().Underlying().(*types.Map).Elem()
		i := in.mapFind(m, key)
		var v Value
		if i >= 0 {
			v = deepCopy(m.entries[i].val)
		} else {
			v = in.zero(vt)
		}
		if x.CommaOk {
			return TupleV{v, in.St.Bool(i >= 0)}
		}
		return v
	case *HostV:
		if m.rv.Kind() == reflect.Map {
			vt := x.X.Type().Underlying().(*types.Map).Elem()
			hk := in.toHost(key, m.rv.Type().Key())
			r := m.rv.MapIndex(hk)
			var v Value
			if r.IsValid() {
				v = in.fromHost(r, vt)
			} else {
				v = in.zero(vt)
				if _, isIface := vt.Underlying().(*types.Interface); isIface {
					v = &IfaceV{}
				}
			}
			if x.CommaOk {
				return TupleV{v, in.St.Bool(r.IsValid())}
			}
			return v
		}
	}
	in.fail("Lookup on %T", base)
	return nil
}
