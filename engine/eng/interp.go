package eng

import (
	"fmt"
	"github.com/cloudflare/ahocorasick"
	"go/constant"
	"go/token"
	"go/types"
	"reflect"
	"strings"

	"golang.org/x/tools/go/ssa"

	"verif/gosym/sym"
)

// ----- path termination signals (Go panics caught by the explorer) -----

type pathEnd struct{ reason string }      // silent end (assume infeasible etc.)
type inconclusive struct{ reason string } // unsupported / unknown: makes the whole run inconclusive
type goPanic struct {                     // a Go-level panic in interpreted code
	val Value
	msg string
	pos token.Pos
}

type frame struct {
	fn        *ssa.Function
	env       []Value
	locals    map[ssa.Value]Value
	defers    []func()
	block     *ssa.BasicBlock
	prev      *ssa.BasicBlock
	result    Value
	panicking *goPanic
	visits    map[int]int
	phiOv     map[*ssa.Phi]Value
	phiOvFor  *ssa.BasicBlock
}

// Interp is a per-worker interpreter; per-path state is reset by beginPath.
type Interp struct {
	depthReported bool // one unbounded-recursion candidate per path
	P             *Program
	Ex            *Explorer
	St            *sym.Store
	Sol           *sym.Solver

	// per path
	trace        []int
	tpos         int
	taken        []int
	forced       []bool
	pc           []*sym.Term
	globals      map[*ssa.Global]*Cell
	cellSeq      int
	mapSeq       int
	steps        int
	obligs       []*sym.Term
	obligPos     []string
	inputs       []*Input
	inputIdx     map[string]*Input
	observed     []Observation
	knownKey     string
	unknownFeas  int
	fresh        int
	depth        int
	builders     map[*Cell]*Str
	onces        map[string]bool
	hostObjs     map[string]Value
	funcsSeen    map[*ssa.Function]bool
	asserts      int
	stubs        map[string]bool
	env          map[string]interface{} // per-path scratch for intrinsics
	curPos       token.Pos
	globalWrites []string
	inOnce       int
	inInit       bool
	tmpl         *globalTemplate
	cross        *sym.Solver
	fallback     *sym.Solver
	panicFrames  []*frame
	astBack      map[*Cell]reflect.Value
	astFwd       map[uintptr]*Ptr
	reached      []string
	byteAssumed  map[int]bool
	spec         bool
	specGuard    *sym.Term
	fnInfos      map[*ssa.Function]*fnInfo
	astTypes     map[reflect.Type]*types.Struct
	l1           *l1Prog
	syncMaps     map[string]*MapV
	syncPools    map[string][]Value
	curFn        *ssa.Function
	posOverride  map[*token.FileSet]posAnswer
	matchers     map[*ahocorasick.Matcher][]string
}

func (in *Interp) fail(format string, args ...interface{}) {
	panic(inconclusive{fmt.Sprintf(format, args...)})
}

func (in *Interp) newCell(v Value, tag string) *Cell {
	if tag == "" && in.inInit {
		tag = "global-heap (allocated by a package initialiser)"
	}
	in.cellSeq++
	return &Cell{id: in.cellSeq, val: v, tag: tag}
}

// ---------- choice points ----------

// choose picks one of mutually exclusive, jointly exhaustive (under pc) alternatives.
func (in *Interp) choose(conds []*sym.Term, what string) int {
	if in.Ex != nil && in.Ex.OverBudget() {
		in.fail("wall-clock budget of the run used up inside a path")
	}
	// constant resolution
	nonFalse := -1
	cnt := 0
	for i, c := range conds {
		if c.IsTrue() {
			return i
		}
		if !c.IsFalse() {
			nonFalse = i
			cnt++
		}
	}
	if cnt == 0 {
		panic(pathEnd{"no alternative: " + what})
	}
	if cnt == 1 {
		if in.spec {
			panic(specAbort{"pc change inside speculative region"})
		}
		in.addPC(conds[nonFalse])
		return nonFalse
	}
	if in.spec {
		panic(specAbort{"choice point inside speculative region"})
	}
	if in.tpos < len(in.trace) {
		d := in.trace[in.tpos]
		in.tpos++
		in.taken = append(in.taken, d)
		in.addPC(conds[d])
		return d
	}
	if len(in.taken) >= in.Ex.MaxDecisions {
		panic(inconclusive{fmt.Sprintf("unwinding assertion: more than %d symbolic decisions on one path (at %s)", in.Ex.MaxDecisions, what)})
	}
	var feas []int
	last := -1
	for i, c := range conds {
		if !c.IsFalse() {
			last = i
		}
	}
	for i, c := range conds {
		if c.IsFalse() {
			continue
		}
		if i == last && len(feas) == 0 {
			feas = append(feas, i) // pc is satisfiable and the alternatives are exhaustive
			break
		}
		switch in.Sol.CheckWith(c) {
		case sym.RSat:
			feas = append(feas, i)
		case sym.RUnknown:
			in.unknownFeas++
			feas = append(feas, i)
		}
	}
	if len(feas) == 0 {
		panic(pathEnd{"infeasible: " + what})
	}
	d := feas[0]
	if len(feas) > 1 {
		in.Ex.noteFork(what)
	}
	for _, j := range feas[1:] {
		nt := make([]int, len(in.taken)+1)
		copy(nt, in.taken)
		nt[len(in.taken)] = j
		in.Ex.push(nt)
	}
	in.taken = append(in.taken, d)
	in.addPC(conds[d])
	return d
}

func (in *Interp) addPC(c *sym.Term) {
	if c.IsTrue() {
		return
	}
	in.pc = append(in.pc, c)
	in.Sol.Assert(c)
}

// branch on a boolean term: returns the concrete outcome on this path.
func (in *Interp) branch(c *sym.Term, what string) bool {
	if c.IsConst() {
		return c.IsTrue()
	}
	return in.choose([]*sym.Term{c, in.St.Not(c)}, what) == 0
}

// require: implicit assertion (no panic): if violated on some input, that is a Go panic path.
func (in *Interp) require(c *sym.Term, msg string) {
	if c.IsTrue() {
		return
	}
	if !in.branch(c, msg) {
		panic(&goPanic{msg: "runtime error: " + msg, pos: in.curPos})
	}
}

func (in *Interp) oblige(c *sym.Term, what string) {
	if in.specGuard != nil {
		c = in.St.Implies(in.specGuard, c)
	}
	if c.IsTrue() {
		return
	}
	in.obligs = append(in.obligs, c)
	in.obligPos = append(in.obligPos, what)
}

func (in *Interp) freshName(prefix string) string {
	in.fresh++
	return fmt.Sprintf("%s!%d", prefix, in.fresh)
}

// ---------- function execution ----------

func (in *Interp) callFunction(fn *ssa.Function, args []Value, env []Value) Value {
	if fn.Blocks == nil {
		in.fail("call of function without body: %s", fn.String())
	}
	in.depth++
	if in.depth > 400 {
		// possibly unbounded recursion in the code under test (natively: fatal stack overflow): a candidate that counts
		// only if the native replay of this path's model dies that way; the path itself stays inconclusive
		if !in.depthReported {
			in.depthReported = true
			in.reportPanic(&goPanic{msg: "call depth exceeded at " + fn.String() + " (unbounded recursion: fatal stack overflow natively)", pos: fn.Pos()})
		}
		in.fail("call depth exceeded at %s", fn.String())
	}
	defer func() { in.depth-- }()
	if !in.funcsSeen[fn] {
		in.funcsSeen[fn] = true
	}
	prevFn := in.curFn
	in.curFn = fn
	defer func() { in.curFn = prevFn }()
	fr := &frame{fn: fn, env: env, locals: make(map[ssa.Value]Value, 16), visits: map[int]int{}}
	for i, p := range fn.Params {
		fr.locals[p] = args[i]
	}
	for i, fv := range fn.FreeVars {
		fr.locals[fv] = env[i]
	}
	return in.runFrame(fr)
}

func (in *Interp) runFrame(fr *frame) (ret Value) {
	fr.block = fr.fn.Blocks[0]
	in.panicFrames = append(in.panicFrames, fr)
	defer func() { in.panicFrames = in.panicFrames[:len(in.panicFrames)-1] }()
	defer func() {
		if r := recover(); r != nil {
			gp, ok := r.(*goPanic)
			if !ok {
				panic(r)
			}
			// Go panic: run defers, maybe recovered
			fr.panicking = gp
			in.runDefers(fr)
			if fr.panicking != nil {
				panic(fr.panicking)
			}
			// recovered: return via recover block if any
			if fr.fn.Recover != nil {
				fr.block = fr.fn.Recover
				fr.prev = nil
				ret = in.execBlocks(fr)
				return
			}
			ret = in.zeroResults(fr.fn)
		}
	}()
	return in.execBlocks(fr)
}

func (in *Interp) zeroResults(fn *ssa.Function) Value {
	res := fn.Signature.Results()
	switch res.Len() {
	case 0:
		return nil
	case 1:
		return in.zero(res.At(0).Type())
	}
	t := make(TupleV, res.Len())
	for i := range t {
		t[i] = in.zero(res.At(i).Type())
	}
	return t
}

func (in *Interp) runDefers(fr *frame) {
	for len(fr.defers) > 0 {
		d := fr.defers[len(fr.defers)-1]
		fr.defers = fr.defers[:len(fr.defers)-1]
		d()
	}
}

func (in *Interp) execBlocks(fr *frame) Value {
	for {
		fr.visits[fr.block.Index]++
		if fr.visits[fr.block.Index] > in.Ex.MaxBlockVisits {
			in.fail("unwinding assertion: block %d of %s visited more than %d times", fr.block.Index, fr.fn.String(), in.Ex.MaxBlockVisits)
		}
		var next *ssa.BasicBlock
		for _, instr := range fr.block.Instrs {
			in.steps++
			if in.steps > in.Ex.MaxSteps {
				in.fail("step budget exceeded (%d) in %s", in.Ex.MaxSteps, fr.fn.String())
			}
			if p := instr.Pos(); p.IsValid() {
				in.curPos = p
			}
			switch x := instr.(type) {
			case *ssa.Phi:
				if fr.phiOv != nil {
					if v, ok := fr.phiOv[x]; ok {
						fr.locals[x] = v
						continue
					}
				}
				for i, pred := range fr.block.Preds {
					if pred == fr.prev {
						fr.locals[x] = in.get(fr, x.Edges[i])
						break
					}
				}
			case *ssa.Jump:
				next = fr.block.Succs[0]
			case *ssa.If:
				c := in.get(fr, x.Cond).(*sym.Term)
				if !c.IsConst() {
					if J, ok := in.tryIfConvert(fr, x, c); ok {
						next = J
						break
					}
				}
				if in.branch(c, "if@"+in.posStr(x.Cond.Pos(), fr.fn)) {
					next = fr.block.Succs[0]
				} else {
					next = fr.block.Succs[1]
				}
			case *ssa.Return:
				var res Value
				switch len(x.Results) {
				case 0:
				case 1:
					res = in.get(fr, x.Results[0])
				default:
					t := make(TupleV, len(x.Results))
					for i, r := range x.Results {
						t[i] = in.get(fr, r)
					}
					res = t
				}
				return res
			case *ssa.RunDefers:
				in.runDefers(fr)
			case *ssa.Panic:
				v := in.get(fr, x.X)
				panic(&goPanic{val: v, msg: in.panicText(v), pos: x.Pos()})
			default:
				in.execInstr(fr, instr)
			}
		}
		if next == nil {
			in.fail("block fell through in %s", fr.fn.String())
		}
		fr.prev = fr.block
		fr.block = next
		if fr.phiOvFor != next {
			fr.phiOv = nil
		}
	}
}

func (in *Interp) panicText(v Value) string {
	if iv, ok := v.(*IfaceV); ok && iv.typ != nil {
		switch x := iv.val.(type) {
		case *Str:
			if x.kind == sConc {
				return "panic: " + x.conc
			}
			return "panic: <symbolic string>"
		case *HostV:
			return fmt.Sprintf("panic: %v", x.rv)
		}
		return "panic: value of type " + iv.typ.String()
	}
	return "panic"
}

func (in *Interp) posStr(p token.Pos, fn *ssa.Function) string {
	if !p.IsValid() {
		if fn != nil {
			return fn.Name()
		}
		return "?"
	}
	pos := in.P.Prog.Fset.Position(p)
	f := pos.Filename
	if i := strings.LastIndex(f, "/src/"); i >= 0 {
		f = f[i+5:]
	}
	return fmt.Sprintf("%s:%d", f, pos.Line)
}

func (in *Interp) get(fr *frame, v ssa.Value) Value {
	switch x := v.(type) {
	case *ssa.Const:
		return in.constValue(x)
	case *ssa.Global:
		return &Ptr{cell: in.globalCell(x)}
	case *ssa.Function:
		return &Closure{fn: x}
	case *ssa.Builtin:
		return &Closure{name: "builtin:" + x.Name()}
	}
	val, ok := fr.locals[v]
	if !ok {
		in.fail("unset SSA value %s in %s", v.Name(), fr.fn.String())
	}
	return val
}

func (in *Interp) globalCell(g *ssa.Global) *Cell {
	c, ok := in.globals[g]
	if !ok {
		// lazily created zero global (packages whose init we do not run)
		c = in.newCell(in.zero(g.Type().(*types.Pointer).Elem()), "global "+g.String())
		in.globals[g] = c
		if !in.inInit {
			in.Ex.noteLazyGlobal(g)
		}
	}
	return c
}

func (in *Interp) constValue(c *ssa.Const) Value {
	t := c.Type()
	if c.Value == nil {
		return in.zero(t)
	}
	switch u := t.Underlying().(type) {
	case *types.Basic:
		switch {
		case u.Info()&types.IsBoolean != 0:
			return in.St.Bool(constant.BoolVal(c.Value))
		case u.Info()&types.IsString != 0:
			return concStr(constant.StringVal(c.Value))
		case u.Info()&types.IsInteger != 0:
			if u.Info()&types.IsUnsigned != 0 {
				if v, ok := constant.Uint64Val(constant.ToInt(c.Value)); ok {
					return in.St.Int(int64(v))
				}
			}
			v, _ := constant.Int64Val(constant.ToInt(c.Value))
			return in.St.Int(v)
		case u.Info()&types.IsFloat != 0:
			f, _ := constant.Float64Val(c.Value)
			return &FloatV{f}
		}
	case *types.Interface:
		// constant in interface position shouldn't happen (MakeInterface is explicit)
	}
	in.fail("unsupported constant %v of type %s", c.Value, t)
	return nil
}

// zero value of a type
func (in *Interp) zero(t types.Type) Value {
	switch u := t.Underlying().(type) {
	case *types.Basic:
		switch {
		case u.Info()&types.IsBoolean != 0:
			return in.St.False
		case u.Info()&types.IsString != 0:
			return concStr("")
		case u.Info()&types.IsInteger != 0:
			return in.St.Int(0)
		case u.Info()&types.IsFloat != 0:
			return &FloatV{0}
		case u.Kind() == types.UnsafePointer:
			return NilPtr
		case u.Kind() == types.UntypedNil:
			return NilPtr
		}
	case *types.Pointer:
		return NilPtr
	case *types.Struct:
		s := &StructV{typ: u, fields: make([]Value, u.NumFields())}
		for i := range s.fields {
			s.fields[i] = in.zero(u.Field(i).Type())
		}
		return s
	case *types.Array:
		a := &ArrayV{elems: make([]Value, u.Len())}
		for i := range a.elems {
			a.elems[i] = in.zero(u.Elem())
		}
		return a
	case *types.Slice:
		return &SliceV{}
	case *types.Map:
		return &MapV{isNil: true}
	case *types.Signature:
		return (*Closure)(nil)
	case *types.Interface:
		return &IfaceV{}
	case *types.Chan:
		return NilPtr
	case *types.Tuple:
		tv := make(TupleV, u.Len())
		for i := range tv {
			tv[i] = in.zero(u.At(i).Type())
		}
		return tv
	case *types.TypeParam:
		in.fail("zero of type parameter %s", t)
	}
	in.fail("zero: unsupported type %s", t)
	return nil
}

// ---------- memory ----------

func (in *Interp) load(p *Ptr) Value {
	if p.IsNil() {
		panic(&goPanic{msg: "runtime error: invalid memory address or nil pointer dereference", pos: in.curPos})
	}
	if p.host != nil {
		return in.fromHost(p.host.rv.Elem(), nil)
	}
	v := p.cell.val
	for _, i := range p.path {
		switch c := v.(type) {
		case *StructV:
			v = c.fields[i]
		case *ArrayV:
			if i >= len(c.elems) {
				in.fail("load: index %d out of backing array (%d)", i, len(c.elems))
			}
			v = c.elems[i]
		default:
			in.fail("load: bad path through %T", v)
		}
	}
	if v == nil {
		in.fail("load of poisoned/unset memory (%s)", p.cell.tag)
	}
	if pz, ok := v.(poison); ok {
		in.fail("read of poisoned memory: %s", string(pz))
	}
	return deepCopy(v)
}

type poison string

func (in *Interp) store(p *Ptr, v Value) {
	if p.IsNil() {
		panic(&goPanic{msg: "runtime error: invalid memory address or nil pointer dereference", pos: in.curPos})
	}
	if p.host != nil {
		in.fail("store into host memory")
	}
	if p.cell.tag != "" && strings.HasPrefix(p.cell.tag, "global") && in.inOnce == 0 && !in.inInit {
		w := "?"
		if in.curFn != nil {
			w = in.curFn.String()
		}
		in.globalWrites = append(in.globalWrites, p.cell.tag+" written by "+w)
	}
	v = deepCopy(v)
	if len(p.path) == 0 {
		p.cell.val = v
		return
	}
	cur := p.cell.val
	for k, i := range p.path {
		lastStep := k == len(p.path)-1
		switch c := cur.(type) {
		case *StructV:
			if lastStep {
				c.fields[i] = v
				return
			}
			cur = c.fields[i]
		case *ArrayV:
			if lastStep {
				c.elems[i] = v
				return
			}
			cur = c.elems[i]
		default:
			in.fail("store: bad path through %T", cur)
		}
	}
}

func (in *Interp) fieldIndexByName(st *types.Struct, name string) int {
	for i := 0; i < st.NumFields(); i++ {
		if st.Field(i).Name() == name {
			return i
		}
	}
	return -1
}
