package eng

import (
	"fmt"
	"go/token"
	"go/types"
	"math"
	"sort"

	"golang.org/x/tools/go/ssa"

	"verif/gosym/sym"
)

func (in *Interp) execInstr(fr *frame, instr ssa.Instruction) {
	switch x := instr.(type) {
	case *ssa.Alloc:
		t := x.Type().(*types.Pointer).Elem()
		c := in.newCell(in.zero(t), "")
		fr.locals[x] = &Ptr{cell: c}
	case *ssa.UnOp:
		fr.locals[x] = in.unop(fr, x)
	case *ssa.BinOp:
		fr.locals[x] = in.binop(x.Op, in.get(fr, x.X), in.get(fr, x.Y), x.X.Type(), x.Type())
	case *ssa.Store:
		p := in.get(fr, x.Addr).(*Ptr)
		in.store(p, in.get(fr, x.Val))
	case *ssa.FieldAddr:
		var p *Ptr
		switch b := in.get(fr, x.X).(type) {
		case *Ptr:
			p = b
		case *HostV:
			if hostIsNil(b) {
				p = NilPtr
			} else {
				p = &Ptr{host: b}
			}
		default:
			in.fail("FieldAddr on %T", b)
		}
		if p.IsNil() {
			panic(&goPanic{msg: "runtime error: invalid memory address or nil pointer dereference", pos: in.curPos})
		}
		if p.host != nil {
			if sf := p.host.rv.Elem().Type().Field(x.Field); sf.Anonymous && sf.PkgPath != "" {
				// unexported embedded struct of a host object (e.g. types.object inside *types.TypeName):
				// only used as receiver of promoted methods, which reflection reaches through the outer object
				fr.locals[x] = p
				return
			}
			f := p.host.rv.Elem().Field(x.Field)
			if !f.CanAddr() {
				in.fail("FieldAddr on non-addressable host value")
			}
			fr.locals[x] = &Ptr{host: &HostV{f.Addr()}}
			return
		}
		np := make([]int, len(p.path)+1)
		copy(np, p.path)
		np[len(p.path)] = x.Field
		fr.locals[x] = &Ptr{cell: p.cell, path: np}
	case *ssa.Field:
		v := in.get(fr, x.X)
		switch s := v.(type) {
		case *StructV:
			fv := s.fields[x.Field]
			if pz, ok := fv.(poison); ok {
				in.fail("read of poisoned field: %s", string(pz))
			}
			fr.locals[x] = deepCopy(fv)
		case *HostV:
			fr.locals[x] = in.fromHost(s.rv.Field(x.Field), x.Type())
		default:
			in.fail("Field on %T", v)
		}
	case *ssa.IndexAddr:
		fr.locals[x] = in.indexAddr(fr, x)
	case *ssa.Index:
		fr.locals[x] = in.index(fr, x)
	case *ssa.Slice:
		fr.locals[x] = in.sliceOp(fr, x)
	case *ssa.Extract:
		t := in.get(fr, x.Tuple).(TupleV)
		fr.locals[x] = t[x.Index]
	case *ssa.Call:
		fr.locals[x] = in.call(fr, &x.Call, x)
	case *ssa.Defer:
		call := x.Call
		// evaluate now
		fnv, args := in.prepareCall(fr, &call)
		fr.defers = append(fr.defers, func() { in.invoke(fr, fnv, args, &call, nil) })
	case *ssa.MakeClosure:
		fn := x.Fn.(*ssa.Function)
		env := make([]Value, len(x.Bindings))
		for i, b := range x.Bindings {
			env[i] = in.get(fr, b)
		}
		fr.locals[x] = &Closure{fn: fn, env: env}
	case *ssa.MakeInterface:
		v := in.get(fr, x.X)
		fr.locals[x] = in.makeIface(x.X.Type(), v)
	case *ssa.ChangeInterface:
		fr.locals[x] = in.get(fr, x.X)
	case *ssa.ChangeType:
		fr.locals[x] = in.changeType(in.get(fr, x.X), x.Type())
	case *ssa.Convert:
		fr.locals[x] = in.convert(in.get(fr, x.X), x.X.Type(), x.Type())
	case *ssa.TypeAssert:
		fr.locals[x] = in.typeAssert(x, in.get(fr, x.X))
	case *ssa.MakeMap:
		in.mapSeq++
		fr.locals[x] = &MapV{id: in.mapSeq, conc: map[string]int{}}
	case *ssa.MakeSlice:
		ln := in.get(fr, x.Len).(*sym.Term)
		cp := in.get(fr, x.Cap).(*sym.Term)
		if ln.IsConst() && !cp.IsConst() {
			// a capacity hint computed from symbolic data (make([]T, 0, strings.Count(s, ",")+1)): modelled as
			// capacity == length, i.e. every append copies; only code in which two slice values share the spare
			// capacity of one array could tell the difference
			in.stubs["make([]T, n, <symbolic capacity>) modelled with capacity n (appends copy)"] = true
			cp = ln
		}
		if !ln.IsConst() || !cp.IsConst() {
			in.fail("MakeSlice with symbolic size at %s", in.posStr(x.Pos(), fr.fn))
		}
		et := x.Type().Underlying().(*types.Slice).Elem()
		arr := &ArrayV{elems: make([]Value, cp.I)}
		for i := range arr.elems {
			arr.elems[i] = in.zero(et)
		}
		fr.locals[x] = &SliceV{arr: in.newCell(arr, ""), off: 0, len: int(ln.I), cap: int(cp.I)}
	case *ssa.MapUpdate:
		m := in.get(fr, x.Map)
		in.mapUpdate(m, in.get(fr, x.Key), in.get(fr, x.Value))
	case *ssa.Lookup:
		fr.locals[x] = in.lookup(fr, x)
	case *ssa.Range:
		fr.locals[x] = in.rangeInit(in.get(fr, x.X))
	case *ssa.Next:
		fr.locals[x] = in.rangeNext(in.get(fr, x.Iter).(*rangeIter), x)
	case *ssa.DebugRef:
	case *ssa.SliceToArrayPointer:
		in.fail("SliceToArrayPointer unsupported")
	case *ssa.Go, *ssa.Send, *ssa.Select, *ssa.MakeChan:
		in.fail("concurrency instruction %T at %s", instr, in.posStr(instr.Pos(), fr.fn))
	default:
		in.fail("unsupported instruction %T at %s", instr, in.posStr(instr.Pos(), fr.fn))
	}
}

// ---------- interfaces ----------

func (in *Interp) makeIface(static types.Type, v Value) Value {
	if _, ok := static.Underlying().(*types.Interface); ok {
		return v
	}
	return &IfaceV{typ: static, val: v}
}

func (in *Interp) changeType(v Value, to types.Type) Value {
	return v
}

func (in *Interp) typeAssert(x *ssa.TypeAssert, v Value) Value {
	iv, ok := v.(*IfaceV)
	if !ok {
		in.fail("TypeAssert on %T", v)
	}
	var okv bool
	var res Value
	if iv.typ == nil {
		okv = false
	} else if it, isIface := x.AssertedType.Underlying().(*types.Interface); isIface {
		okv = in.implements(iv.typ, it)
		res = iv
	} else {
		okv = types.Identical(iv.typ, x.AssertedType)
		res = iv.val
	}
	if x.CommaOk {
		if !okv {
			res = in.zero(x.AssertedType)
		}
		return TupleV{res, in.St.Bool(okv)}
	}
	if !okv {
		dyn := "nil"
		if iv.typ != nil {
			dyn = iv.typ.String()
		}
		panic(&goPanic{msg: fmt.Sprintf("interface conversion: interface is %s, not %s", dyn, x.AssertedType), pos: x.Pos()})
	}
	return res
}

func (in *Interp) implements(t types.Type, it *types.Interface) bool {
	if it.NumMethods() == 0 {
		return true
	}
	return types.Implements(t, it)
}

// ---------- unary ----------

func (in *Interp) unop(fr *frame, x *ssa.UnOp) Value {
	v := in.get(fr, x.X)
	switch x.Op {
	case token.MUL: // load
		switch p := v.(type) {
		case *Ptr:
			if p.host != nil {
				return in.fromHost(p.host.rv.Elem(), x.Type())
			}
			return in.load(p)
		case *HostV:
			if hostIsNil(p) {
				panic(&goPanic{msg: "runtime error: invalid memory address or nil pointer dereference", pos: in.curPos})
			}
			return in.fromHost(p.rv.Elem(), x.Type())
		}
		in.fail("load through %T", v)
	case token.NOT:
		return in.St.Not(v.(*sym.Term))
	case token.SUB:
		switch t := v.(type) {
		case *sym.Term:
			r := in.St.Neg(t)
			in.intResult(r, x.Type(), "neg")
			return in.wrapConst(r, x.Type())
		case *FloatV:
			return &FloatV{-t.f}
		}
	case token.XOR:
		t := v.(*sym.Term)
		if t.IsConst() {
			return in.wrapConst(in.St.Int(^t.I), x.Type())
		}
		in.fail("symbolic ^x")
	case token.ARROW:
		in.fail("channel receive unsupported")
	}
	in.fail("unsupported unop %s on %T", x.Op, v)
	return nil
}

// ---------- integer typing ----------

func intInfo(t types.Type) (bits int, unsigned bool, ok bool) {
	b, isB := t.Underlying().(*types.Basic)
	if !isB || b.Info()&types.IsInteger == 0 {
		return 0, false, false
	}
	switch b.Kind() {
	case types.Int8:
		return 8, false, true
	case types.Int16:
		return 16, false, true
	case types.Int32:
		return 32, false, true
	case types.Int, types.Int64, types.UntypedInt, types.UntypedRune:
		return 64, false, true
	case types.Uint8:
		return 8, true, true
	case types.Uint16:
		return 16, true, true
	case types.Uint32:
		return 32, true, true
	case types.Uint, types.Uint64, types.Uintptr:
		return 64, true, true
	}
	return 64, false, true
}

func typeRange(t types.Type) (lo, hi int64, full bool) {
	bits, uns, ok := intInfo(t)
	if !ok {
		return 0, 0, true
	}
	if uns {
		if bits == 64 {
			return 0, math.MaxInt64, false // uint64 modelled up to 2^63-1; larger values are outside the encoding
		}
		return 0, int64(1)<<uint(bits) - 1, false
	}
	if bits == 64 {
		return math.MinInt64, math.MaxInt64, false
	}
	return -(int64(1) << uint(bits-1)), int64(1)<<uint(bits-1) - 1, false
}

// wrapConst truncates a concrete result to the machine type.
func (in *Interp) wrapConst(r *sym.Term, t types.Type) *sym.Term {
	if !r.IsConst() || r.Sort != sym.SInt {
		return r
	}
	bits, uns, ok := intInfo(t)
	if !ok || bits == 64 {
		return r
	}
	v := r.I
	mask := int64(1)<<uint(bits) - 1
	v &= mask
	if !uns && v>>(uint(bits)-1) != 0 {
		v -= int64(1) << uint(bits)
	}
	return in.St.Int(v)
}

// intResult records the no-wrap obligation for a symbolic arithmetic result.
func (in *Interp) intResult(r *sym.Term, t types.Type, what string) {
	if r.IsConst() {
		return
	}
	lo, hi, full := typeRange(t)
	if full {
		return
	}
	in.oblige(in.St.InRange(r, lo, hi), what+"@"+in.posStr(in.curPos, nil))
}

// ---------- binary ----------

func (in *Interp) binop(op token.Token, a, b Value, operandT, resT types.Type) Value {
	st := in.St
	switch x := a.(type) {
	case *sym.Term:
		y, ok := b.(*sym.Term)
		if !ok {
			in.fail("binop %s on Term and %T", op, b)
		}
		if x.Sort == sym.SBool {
			switch op {
			case token.EQL:
				return st.Eq(x, y)
			case token.NEQ:
				return st.Not(st.Eq(x, y))
			case token.AND:
				return st.And(x, y)
			case token.OR:
				return st.Or(x, y)
			}
			in.fail("bool binop %s", op)
		}
		return in.intBinop(op, x, y, operandT, resT)
	case *Str:
		y := b.(*Str)
		switch op {
		case token.ADD:
			return in.strConcat(x, y)
		case token.EQL:
			return in.strEq(x, y)
		case token.NEQ:
			return st.Not(in.strEq(x, y))
		case token.LSS, token.LEQ, token.GTR, token.GEQ:
			if x.kind == sConc && y.kind == sConc {
				var r bool
				switch op {
				case token.LSS:
					r = x.conc < y.conc
				case token.LEQ:
					r = x.conc <= y.conc
				case token.GTR:
					r = x.conc > y.conc
				case token.GEQ:
					r = x.conc >= y.conc
				}
				return st.Bool(r)
			}
			// finite-domain strings (enum selectors, possibly against a concrete string): case split over the alternatives
			if r := in.enumOrdered(op, x, y); r != nil {
				return r
			}
			in.fail("ordered comparison of symbolic strings")
		}
	case *FloatV:
		y := b.(*FloatV)
		switch op {
		case token.ADD:
			return &FloatV{x.f + y.f}
		case token.SUB:
			return &FloatV{x.f - y.f}
		case token.MUL:
			return &FloatV{x.f * y.f}
		case token.QUO:
			return &FloatV{x.f / y.f}
		case token.EQL:
			return st.Bool(x.f == y.f)
		case token.NEQ:
			return st.Bool(x.f != y.f)
		case token.LSS:
			return st.Bool(x.f < y.f)
		case token.LEQ:
			return st.Bool(x.f <= y.f)
		case token.GTR:
			return st.Bool(x.f > y.f)
		case token.GEQ:
			return st.Bool(x.f >= y.f)
		}
	}
	switch op {
	case token.EQL:
		return in.equal(a, b)
	case token.NEQ:
		return st.Not(in.equal(a, b))
	}
	in.fail("unsupported binop %s on %T,%T", op, a, b)
	return nil
}

func (in *Interp) intBinop(op token.Token, x, y *sym.Term, operandT, resT types.Type) Value {
	st := in.St
	switch op {
	case token.EQL:
		return st.Eq(x, y)
	case token.NEQ:
		return st.Not(st.Eq(x, y))
	case token.LSS:
		return st.Lt(x, y)
	case token.LEQ:
		return st.Le(x, y)
	case token.GTR:
		return st.Lt(y, x)
	case token.GEQ:
		return st.Le(y, x)
	}
	bits, uns, _ := intInfo(operandT)
	bothConst := x.IsConst() && y.IsConst()
	var r *sym.Term
	switch op {
	case token.ADD:
		if bothConst {
			return in.wrapConst(st.Int(x.I+y.I), resT)
		}
		r = st.Add(x, y)
	case token.SUB:
		if bothConst {
			if uns && bits == 64 {
				return st.Int(int64(uint64(x.I) - uint64(y.I)))
			}
			return in.wrapConst(st.Int(x.I-y.I), resT)
		}
		r = st.Sub(x, y)
	case token.MUL:
		if bothConst {
			return in.wrapConst(st.Int(x.I*y.I), resT)
		}
		if !x.IsConst() && !y.IsConst() {
			in.fail("symbolic*symbolic multiplication at %s", in.posStr(in.curPos, nil))
		}
		r = st.Mul(x, y)
	case token.QUO, token.REM:
		if y.IsConst() && y.I == 0 {
			panic(&goPanic{msg: "runtime error: integer divide by zero", pos: in.curPos})
		}
		if bothConst {
			if uns {
				if op == token.QUO {
					return st.Int(int64(uint64(x.I) / uint64(y.I)))
				}
				return st.Int(int64(uint64(x.I) % uint64(y.I)))
			}
			if op == token.QUO {
				return in.wrapConst(st.Int(x.I/y.I), resT)
			}
			return st.Int(x.I % y.I)
		}
		if !y.IsConst() {
			in.require(st.Not(st.Eq(y, st.Int(0))), "integer divide by zero")
		}
		// Go truncated division from euclidean div/mod
		// q = ite(x>=0, x div y, -((-x) div y)); r = x - q*y
		var q *sym.Term
		if y.IsConst() {
			q = st.Ite(st.Le(st.Int(0), x), st.EDiv(x, y), st.Neg(st.EDiv(st.Neg(x), y)))
		} else {
			in.fail("division by symbolic divisor at %s", in.posStr(in.curPos, nil))
		}
		if op == token.QUO {
			r = q
		} else {
			r = st.Sub(x, st.Mul(q, y))
		}
	case token.AND, token.OR, token.XOR, token.AND_NOT:
		if bothConst {
			var v int64
			switch op {
			case token.AND:
				v = x.I & y.I
			case token.OR:
				v = x.I | y.I
			case token.XOR:
				v = x.I ^ y.I
			case token.AND_NOT:
				v = x.I &^ y.I
			}
			return in.wrapConst(st.Int(v), resT)
		}
		in.fail("symbolic bit operation %s at %s", op, in.posStr(in.curPos, nil))
	case token.SHL, token.SHR:
		if bothConst {
			sh := uint64(y.I)
			if op == token.SHL {
				if sh >= 64 {
					return st.Int(0)
				}
				return in.wrapConst(st.Int(int64(uint64(x.I)<<sh)), resT)
			}
			if uns {
				if sh >= 64 {
					return st.Int(0)
				}
				// logical shift on the value truncated to its width
				ux := uint64(x.I)
				if bits < 64 {
					ux &= uint64(1)<<uint(bits) - 1
				}
				return st.Int(int64(ux >> sh))
			}
			if sh >= 64 {
				sh = 63
			}
			return st.Int(x.I >> sh)
		}
		in.fail("symbolic shift at %s", in.posStr(in.curPos, nil))
	default:
		in.fail("unsupported int binop %s", op)
	}
	in.intResult(r, resT, op.String())
	return r
}

// equal: generic Go == as a Bool term
func (in *Interp) equal(a, b Value) *sym.Term {
	st := in.St
	switch x := a.(type) {
	case *sym.Term:
		return st.Eq(x, b.(*sym.Term))
	case *Str:
		return in.strEq(x, b.(*Str))
	case *Ptr:
		y, ok := b.(*Ptr)
		if !ok {
			in.fail("compare Ptr with %T", b)
		}
		if x.IsNil() || y.IsNil() {
			return st.Bool(x.IsNil() && y.IsNil())
		}
		if x.host != nil || y.host != nil {
			if x.host != nil && y.host != nil {
				return st.Bool(x.host.rv.Pointer() == y.host.rv.Pointer())
			}
			return st.False
		}
		if x.cell != y.cell || len(x.path) != len(y.path) {
			return st.False
		}
		for i := range x.path {
			if x.path[i] != y.path[i] {
				return st.False
			}
		}
		return st.True
	case *IfaceV:
		y, ok := b.(*IfaceV)
		if !ok {
			in.fail("compare IfaceV with %T", b)
		}
		if x.typ == nil || y.typ == nil {
			return st.Bool(x.typ == nil && y.typ == nil)
		}
		if !types.Identical(x.typ, y.typ) {
			return st.False
		}
		return in.equal(x.val, y.val)
	case *HostV:
		y, ok := b.(*HostV)
		if !ok {
			if p, isP := b.(*Ptr); isP && p.IsNil() {
				return st.Bool(hostIsNil(x))
			}
			in.fail("compare HostV with %T", b)
		}
		return st.Bool(hostKey(x) == hostKey(y))
	case *SliceV:
		y := b.(*SliceV)
		if x.arr == nil || y.arr == nil {
			return st.Bool(x.arr == nil && y.arr == nil)
		}
		in.fail("slice comparison")
	case *MapV:
		y := b.(*MapV)
		if x.isNil || y.isNil {
			return st.Bool(x.isNil && y.isNil)
		}
		return st.Bool(x == y)
	case *Closure:
		y := b.(*Closure)
		return st.Bool((x == nil) == (y == nil) && (x == nil || x == y))
	case *StructV:
		y := b.(*StructV)
		var cs []*sym.Term
		for i := range x.fields {
			cs = append(cs, in.equal(x.fields[i], y.fields[i]))
		}
		return st.And(cs...)
	case *ArrayV:
		y := b.(*ArrayV)
		var cs []*sym.Term
		for i := range x.elems {
			cs = append(cs, in.equal(x.elems[i], y.elems[i]))
		}
		return st.And(cs...)
	case *BytesV:
		y, ok := b.(*SliceV)
		if ok && y.arr == nil {
			return st.False
		}
	}
	if p, ok := a.(*Ptr); ok && p.IsNil() {
		if h, ok := b.(*HostV); ok {
			return st.Bool(hostIsNil(h))
		}
	}
	in.fail("equal: unsupported %T vs %T", a, b)
	return nil
}

// ---------- conversion ----------

func (in *Interp) convert(v Value, from, to types.Type) Value {
	fu, tu := from.Underlying(), to.Underlying()
	switch x := v.(type) {
	case *sym.Term:
		if tb, ok := tu.(*types.Basic); ok {
			if tb.Info()&types.IsInteger != 0 {
				if x.IsConst() {
					return in.wrapConst(x, to)
				}
				lo, hi, full := typeRange(to)
				flo, fhi, _ := typeRange(from)
				if !full && (flo < lo || fhi > hi) {
					in.oblige(in.St.InRange(x, lo, hi), "convert@"+in.posStr(in.curPos, nil))
				}
				return x
			}
			if tb.Info()&types.IsString != 0 {
				// string(rune)
				if x.IsConst() {
					return concStr(string(rune(x.I)))
				}
				// single byte ASCII assumption
				b := x
				return &Str{kind: sView, length: in.St.Int(1), max: 1, at: func(i *sym.Term) *sym.Term { return b }, origin: "string(byte)"}
			}
			if tb.Info()&types.IsFloat != 0 {
				if x.IsConst() {
					return &FloatV{float64(x.I)}
				}
			}
		}
	case *FloatV:
		if tb, ok := tu.(*types.Basic); ok {
			if tb.Info()&types.IsInteger != 0 {
				return in.wrapConst(in.St.Int(int64(x.f)), to)
			}
			if tb.Info()&types.IsFloat != 0 {
				return x
			}
		}
	case *Str:
		if _, ok := tu.(*types.Basic); ok {
			return x
		}
		if sl, ok := tu.(*types.Slice); ok {
			if b, ok := sl.Elem().Underlying().(*types.Basic); ok && b.Kind() == types.Uint8 {
				return &BytesV{s: x}
			}
			if b, ok := sl.Elem().Underlying().(*types.Basic); ok && b.Kind() == types.Int32 && x.kind == sConc {
				rs := []rune(x.conc)
				arr := &ArrayV{elems: make([]Value, len(rs))}
				for i, r := range rs {
					arr.elems[i] = in.St.Int(int64(r))
				}
				return &SliceV{arr: in.newCell(arr, ""), len: len(rs), cap: len(rs)}
			}
		}
	case *BytesV:
		if tb, ok := tu.(*types.Basic); ok && tb.Info()&types.IsString != 0 {
			return x.s
		}
		if _, ok := tu.(*types.Slice); ok {
			return x
		}
	case *SliceV:
		if tb, ok := tu.(*types.Basic); ok && tb.Info()&types.IsString != 0 {
			// []byte or []rune (concrete) -> string
			fs := fu.(*types.Slice)
			isRune := fs.Elem().Underlying().(*types.Basic).Kind() == types.Int32
			var bs []byte
			var rs []rune
			for i := 0; i < x.len; i++ {
				e := in.load(&Ptr{cell: x.arr, path: []int{x.off + i}}).(*sym.Term)
				if !e.IsConst() {
					if isRune {
						in.fail("string([]rune) symbolic")
					}
					// symbolic bytes -> view
					elems := make([]*sym.Term, x.len)
					for j := 0; j < x.len; j++ {
						elems[j] = in.load(&Ptr{cell: x.arr, path: []int{x.off + j}}).(*sym.Term)
					}
					return in.strFromBytes(elems)
				}
				if isRune {
					rs = append(rs, rune(e.I))
				} else {
					bs = append(bs, byte(e.I))
				}
			}
			if isRune {
				return concStr(string(rs))
			}
			return concStr(string(bs))
		}
		return x
	case *Ptr:
		return x
	}
	if types.Identical(fu, tu) {
		return v
	}
	in.fail("unsupported conversion %s -> %s (%T)", from, to, v)
	return nil
}

// ---------- range ----------

type rangeIter struct {
	kind  int // 0 map, 1 string
	keys  []Value
	vals  []Value
	pos   int
	str   string
	hostm *HostV
	view  *Str
	vmax  int
}

func (in *Interp) rangeInit(v Value) Value {
	switch x := v.(type) {
	case *MapV:
		it := &rangeIter{}
		// deterministic order: concrete keys sorted by canonical key, symbolic keys in insertion order after them
		type kv struct {
			k string
			e mapEntry
		}
		var conc []kv
		var symb []mapEntry
		for _, e := range x.entries {
			if k, ok := concKey(e.key); ok {
				conc = append(conc, kv{k, e})
			} else {
				symb = append(symb, e)
			}
		}
		sort.Slice(conc, func(i, j int) bool { return conc[i].k < conc[j].k })
		var ents []mapEntry
		for _, c := range conc {
			ents = append(ents, c.e)
		}
		ents = append(ents, symb...)
		// iteration-order exploration: symbolic choice of a rotation/permutation for small maps
		if in.Ex.MapOrders && len(ents) >= 2 && len(ents) <= in.Ex.MapOrderMax && !in.inInit {
			ents = in.permute(ents)
		}
		for _, e := range ents {
			it.keys = append(it.keys, e.key)
			it.vals = append(it.vals, e.val)
		}
		return it
	case *Str:
		if x.kind != sConc {
			// symbolic subject: one byte per rune (exact for ASCII subjects; a feasible byte >= 0x80 ends the path inconclusive)
			v := in.toView(x)
			n := in.needMax(v, "range over symbolic string")
			return &rangeIter{kind: 2, view: v, vmax: n}
		}
		return &rangeIter{kind: 1, str: x.conc}
	case *HostV:
		if x.rv.Kind() == 21 /* reflect.Map */ {
			it := &rangeIter{}
			keys := x.rv.MapKeys()
			type kv struct {
				k        string
				key, val Value
			}
			var l []kv
			for _, k := range keys {
				kv1 := in.fromHost(k, nil)
				vv := in.fromHost(x.rv.MapIndex(k), nil)
				ck, _ := concKey(kv1)
				l = append(l, kv{ck, kv1, vv})
			}
			sort.Slice(l, func(i, j int) bool { return l[i].k < l[j].k })
			for _, e := range l {
				it.keys = append(it.keys, e.key)
				it.vals = append(it.vals, e.val)
			}
			return it
		}
	}
	in.fail("range over %T", v)
	return nil
}

// permute explores iteration orders of a native map: an n-way nondeterministic choice per position.
func (in *Interp) permute(ents []mapEntry) []mapEntry {
	rest := append([]mapEntry(nil), ents...)
	var out []mapEntry
	for len(rest) > 1 {
		in.Ex.noteOrderVar()
		d := in.chooseFree(len(rest), "map iteration order")
		out = append(out, rest[d])
		rest = append(rest[:d], rest[d+1:]...)
	}
	return append(out, rest...)
}

func (in *Interp) rangeNext(it *rangeIter, x *ssa.Next) Value {
	if it.kind == 1 {
		if it.pos >= len(it.str) {
			return TupleV{in.St.False, in.St.Int(0), in.St.Int(0)}
		}
		// decode rune
		r, sz := decodeRune(it.str[it.pos:])
		idx := it.pos
		it.pos += sz
		return TupleV{in.St.True, in.St.Int(int64(idx)), in.St.Int(int64(r))}
	}
	if it.kind == 2 {
		st := in.St
		if it.pos >= it.vmax {
			return TupleV{st.False, st.Int(0), st.Int(0)}
		}
		pp := st.Int(int64(it.pos))
		if !in.branch(st.Lt(pp, it.view.length), "range over string: more bytes") {
			return TupleV{st.False, st.Int(0), st.Int(0)}
		}
		b := it.view.at(pp)
		if !in.branch(st.Lt(b, st.Int(0x80)), "range over string: ASCII byte") {
			in.fail("range over symbolic string with a non-ASCII byte")
		}
		it.pos++
		return TupleV{st.True, pp, b}
	}
	if it.pos >= len(it.keys) {
		return TupleV{in.St.False, nil, nil}
	}
	k, v := it.keys[it.pos], it.vals[it.pos]
	it.pos++
	return TupleV{in.St.True, k, deepCopy(v)}
}

func decodeRune(s string) (rune, int) {
	for i, r := range s {
		_ = i
		n := len(string(r))
		if r == 0xFFFD {
			n = 1
		}
		return r, n
	}
	return 0, 0
}
