package eng

import (
	"fmt"
	"regexp"
	"regexp/syntax"

	"golang.org/x/tools/go/ssa"

	"verif/gosym/sym"
)

func registerRegexIntrinsics() {
	intrinsics["(*regexp.Regexp).FindStringSubmatch"] = func(in *Interp, fn *ssa.Function, a []Value) Value {
		re := a[0].(*HostV).rv.Interface().(*regexp.Regexp)
		s := a[1].(*Str)
		if s.kind == sConc {
			m := re.FindStringSubmatch(s.conc)
			if m == nil {
				return &SliceV{}
			}
			vs := make([]Value, len(m))
			for i, x := range m {
				vs[i] = concStr(x)
			}
			return in.mkSlice(vs)
		}
		if s.kind == sEnum {
			// finite-domain subject: run the real regexp on every alternative
			st := in.St
			ms := make([][]string, len(s.alts))
			var ds []*sym.Term
			var live []int
			ng := re.NumSubexp() + 1
			for i, a := range s.alts {
				ms[i] = re.FindStringSubmatch(a)
				if ms[i] != nil {
					ds = append(ds, st.Eq(s.sel, st.Int(int64(i))))
					live = append(live, i)
				}
			}
			if !in.branch(st.Or(ds...), "regex match (enum) "+shortRe(re.String())) {
				return &SliceV{}
			}
			vs := make([]Value, ng)
			for g := 0; g < ng; g++ {
				alts := make([]string, len(s.alts))
				for i := range s.alts {
					if ms[i] != nil {
						alts[i] = ms[i][g]
					}
				}
				vs[g] = normEnum(&Str{kind: sEnum, sel: s.sel, alts: alts, max: maxLen(alts)}, live)
			}
			return in.mkSlice(vs)
		}
		ok, caps := in.regexMatch(re.String(), s)
		if !in.branch(ok, "regex match "+shortRe(re.String())) {
			return &SliceV{}
		}
		v := in.toView(s)
		st := in.St
		n := len(caps) / 2
		vs := make([]Value, n)
		for g := 0; g < n; g++ {
			lo, hi := caps[2*g], caps[2*g+1]
			// unmatched group => ""
			set := st.And(st.Le(st.Int(0), lo), st.Le(st.Int(0), hi))
			l := st.Ite(set, lo, st.Int(0))
			h := st.Ite(set, hi, st.Int(0))
			l0 := l
			vs[g] = &Str{kind: sView, length: st.Sub(h, l), max: v.max, origin: v.origin, at: func(i *sym.Term) *sym.Term { return v.at(st.Add(l0, i)) }}
		}
		return in.mkSlice(vs)
	}
	intrinsics["(*regexp.Regexp).MatchString"] = func(in *Interp, fn *ssa.Function, a []Value) Value {
		re := a[0].(*HostV).rv.Interface().(*regexp.Regexp)
		s := a[1].(*Str)
		if s.kind == sConc {
			return in.St.Bool(re.MatchString(s.conc))
		}
		if s.kind == sEnum {
			var ds []*sym.Term
			for i, a := range s.alts {
				if re.MatchString(a) {
					ds = append(ds, in.St.Eq(s.sel, in.St.Int(int64(i))))
				}
			}
			return in.St.Or(ds...)
		}
		ok, _ := in.regexMatch(re.String(), s)
		return ok
	}
	intrinsics["(*regexp.Regexp).String"] = func(in *Interp, fn *ssa.Function, a []Value) Value {
		return concStr(a[0].(*HostV).rv.Interface().(*regexp.Regexp).String())
	}
}

func shortRe(s string) string {
	if len(s) > 24 {
		return s[:24] + "…"
	}
	return s
}

type rxState struct {
	ok   *sym.Term
	caps []*sym.Term // -1 = not set from here on
}

type rxCtx struct {
	in   *Interp
	prog *syntax.Prog
	v    *Str
	n    int
	memo map[[2]int]*rxState
	busy map[[2]int]bool
	ncap int
	fail *rxState
}

// regexMatch symbolically executes the compiled program of the regex source on the view s
// (leftmost-first, anchored search start at every position for unanchored patterns).
// Exact for subjects of length <= s.max consisting of ASCII bytes.
func (in *Interp) regexMatch(src string, s *Str) (*sym.Term, []*sym.Term) {
	v := in.toView(s)
	n := in.needMax(v, "regexp match")
	re, err := syntax.Parse(src, syntax.Perl)
	if err != nil {
		in.fail("regexp parse: %v", err)
	}
	ncap := re.MaxCap()
	prog, err := syntax.Compile(re.Simplify())
	if err != nil {
		in.fail("regexp compile: %v", err)
	}
	st := in.St
	c := &rxCtx{in: in, prog: prog, v: v, n: n, memo: map[[2]int]*rxState{}, busy: map[[2]int]bool{}, ncap: 2 * (ncap + 1)}
	none := make([]*sym.Term, c.ncap)
	for i := range none {
		none[i] = st.Int(-1)
	}
	c.fail = &rxState{ok: st.False, caps: none}
	in.Ex.noteRegex(src, len(prog.Inst))
	// unanchored search: try start positions 0..n in order (leftmost), first success wins
	anchored := prog.StartCond()&syntax.EmptyBeginText != 0
	var res *rxState = c.fail
	maxStart := n
	if anchored {
		maxStart = 0
	}
	for p := maxStart; p >= 0; p-- {
		r := c.run(prog.Start, p)
		pp := st.Int(int64(p))
		inb := st.Le(pp, v.length)
		caps := make([]*sym.Term, c.ncap)
		copy(caps, r.caps)
		// group 0 start
		caps[0] = pp
		this := &rxState{ok: st.And(inb, r.ok), caps: caps}
		res = c.merge(this, res)
	}
	return res.ok, res.caps
}

func (c *rxCtx) merge(x, y *rxState) *rxState {
	st := c.in.St
	if x.ok.IsFalse() {
		return y
	}
	if x.ok.IsTrue() {
		return x
	}
	caps := make([]*sym.Term, c.ncap)
	for i := range caps {
		caps[i] = st.Ite(x.ok, x.caps[i], y.caps[i])
	}
	return &rxState{ok: st.Or(x.ok, y.ok), caps: caps}
}

func (c *rxCtx) run(pc int, pos int) *rxState {
	key := [2]int{pc, pos}
	if r, ok := c.memo[key]; ok {
		return r
	}
	if c.busy[key] {
		return c.fail // re-entered during own evaluation: empty loop, fails as in a backtracker's visited set
	}
	c.busy[key] = true
	r := c.step(pc, pos)
	delete(c.busy, key)
	c.memo[key] = r
	return r
}

func (c *rxCtx) step(pc int, pos int) *rxState {
	st := c.in.St
	inst := &c.prog.Inst[pc]
	pp := st.Int(int64(pos))
	switch inst.Op {
	case syntax.InstFail:
		return c.fail
	case syntax.InstMatch:
		caps := make([]*sym.Term, c.ncap)
		copy(caps, c.fail.caps)
		caps[1] = pp
		return &rxState{ok: st.True, caps: caps}
	case syntax.InstNop:
		return c.run(int(inst.Out), pos)
	case syntax.InstCapture:
		r := c.run(int(inst.Out), pos)
		if r.ok.IsFalse() {
			return r
		}
		k := int(inst.Arg)
		if k >= c.ncap {
			return r
		}
		caps := make([]*sym.Term, c.ncap)
		copy(caps, r.caps)
		// the last execution of cap k on the successful path wins: keep a later setting if there is one
		caps[k] = st.Ite(st.Le(st.Int(0), r.caps[k]), r.caps[k], pp)
		return &rxState{ok: r.ok, caps: caps}
	case syntax.InstAlt:
		x := c.run(int(inst.Out), pos)
		y := c.run(int(inst.Arg), pos)
		return c.merge(x, y)
	case syntax.InstAltMatch:
		x := c.run(int(inst.Out), pos)
		y := c.run(int(inst.Arg), pos)
		return c.merge(x, y)
	case syntax.InstEmptyWidth:
		cond := st.True
		e := syntax.EmptyOp(inst.Arg)
		if e&syntax.EmptyBeginText != 0 {
			cond = st.And(cond, st.Bool(pos == 0))
		}
		if e&syntax.EmptyEndText != 0 {
			cond = st.And(cond, st.Eq(c.v.length, pp))
		}
		if e&syntax.EmptyBeginLine != 0 {
			if pos == 0 {
				// true
			} else {
				cond = st.And(cond, st.Eq(c.v.at(st.Int(int64(pos-1))), st.Int('\n')))
			}
		}
		if e&syntax.EmptyEndLine != 0 {
			cond = st.And(cond, st.Or(st.Eq(c.v.length, pp), st.Eq(c.v.at(pp), st.Int('\n'))))
		}
		if e&(syntax.EmptyWordBoundary|syntax.EmptyNoWordBoundary) != 0 {
			// ASCII word characters [0-9A-Za-z_]; outside the subject counts as a non-word character
			isWord := func(b *sym.Term) *sym.Term {
				in := func(lo, hi rune) *sym.Term { return st.And(st.Le(st.Int(int64(lo)), b), st.Le(b, st.Int(int64(hi)))) }
				return st.Or(in('0', '9'), in('A', 'Z'), in('a', 'z'), st.Eq(b, st.Int('_')))
			}
			prev := st.False
			if pos > 0 {
				prev = isWord(c.v.at(st.Int(int64(pos - 1))))
			}
			cur := st.False
			if pos < c.n {
				cur = st.And(st.Lt(pp, c.v.length), isWord(c.v.at(pp)))
			}
			boundary := st.Not(st.Eq(prev, cur))
			if e&syntax.EmptyWordBoundary != 0 {
				cond = st.And(cond, boundary)
			}
			if e&syntax.EmptyNoWordBoundary != 0 {
				cond = st.And(cond, st.Not(boundary))
			}
		}
		if cond.IsFalse() {
			return c.fail
		}
		r := c.run(int(inst.Out), pos)
		return &rxState{ok: st.And(cond, r.ok), caps: r.caps}
	case syntax.InstRune, syntax.InstRune1, syntax.InstRuneAny, syntax.InstRuneAnyNotNL:
		if pos >= c.n {
			return c.fail
		}
		b := c.v.at(pp)
		cond := st.Lt(pp, c.v.length)
		switch inst.Op {
		case syntax.InstRuneAny:
		case syntax.InstRuneAnyNotNL:
			cond = st.And(cond, st.Not(st.Eq(b, st.Int('\n'))))
		default:
			cond = st.And(cond, c.runeCond(inst, b))
		}
		if cond.IsFalse() {
			return c.fail
		}
		r := c.run(int(inst.Out), pos+1)
		return &rxState{ok: st.And(cond, r.ok), caps: r.caps}
	}
	c.in.fail("regexp instruction %v unsupported", inst.Op)
	return nil
}

func (c *rxCtx) runeCond(inst *syntax.Inst, b *sym.Term) *sym.Term {
	st := c.in.St
	fold := syntax.Flags(inst.Arg)&syntax.FoldCase != 0
	rs := inst.Rune
	var ds []*sym.Term
	addRange := func(lo, hi rune) {
		if lo > 127 {
			return
		}
		if hi > 127 {
			hi = 127
		}
		if lo == hi {
			ds = append(ds, st.Eq(b, st.Int(int64(lo))))
		} else {
			ds = append(ds, st.And(st.Le(st.Int(int64(lo)), b), st.Le(b, st.Int(int64(hi)))))
		}
	}
	if len(rs) == 1 {
		addRange(rs[0], rs[0])
		if fold {
			r := rs[0]
			if r >= 'a' && r <= 'z' {
				addRange(r-32, r-32)
			} else if r >= 'A' && r <= 'Z' {
				addRange(r+32, r+32)
			}
		}
		return st.Or(ds...)
	}
	for i := 0; i+1 < len(rs); i += 2 {
		addRange(rs[i], rs[i+1])
	}
	if fold {
		c.in.fail("regexp fold-case class unsupported")
	}
	return st.Or(ds...)
}

func (ex *Explorer) noteRegex(src string, n int) {
	ex.mu.Lock()
	if ex.Regexes == nil {
		ex.Regexes = map[string]int{}
	}
	ex.Regexes[src] = n
	ex.mu.Unlock()
}

var _ = fmt.Sprintf
