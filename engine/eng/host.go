package eng

import (
	"fmt"
	"go/ast"
	"go/token"
	"go/types"
	"reflect"
	"regexp"
	"strings"

	"github.com/cloudflare/ahocorasick"

	"verif/gosym/sym"
)

// hostFuncs: package-level functions executed natively (arguments must be concrete / host objects).
var hostFuncs = map[string]interface{}{
	"regexp.MustCompile":                                 regexp.MustCompile,
	"go/types.NewPointer":                                types.NewPointer,
	"go/types.NewMethodSet":                              types.NewMethodSet,
	"go/types.Identical":                                 types.Identical,
	"go/types.Unalias":                                   types.Unalias,
	"go/types.TypeString":                                types.TypeString,
	"go/types.Implements":                                types.Implements,
	"go/types.AssignableTo":                              types.AssignableTo,
	"go/types.ConvertibleTo":                             types.ConvertibleTo,
	"go/types.IdenticalIgnoreTags":                       types.IdenticalIgnoreTags,
	"go/types.IsInterface":                               types.IsInterface,
	"go/types.Comparable":                                types.Comparable,
	"go/types.Satisfies":                                 types.Satisfies,
	"go/types.Default":                                   types.Default,
	"go/types.MissingMethod":                             types.MissingMethod,
	"go/types.LookupFieldOrMethod":                       types.LookupFieldOrMethod,
	"go/types.NewSlice":                                  types.NewSlice,
	"go/types.NewArray":                                  types.NewArray,
	"go/types.NewMap":                                    types.NewMap,
	"go/types.NewChan":                                   types.NewChan,
	"go/types.ObjectString":                              types.ObjectString,
	"go/types.SelectionString":                           types.SelectionString,
	"go/types.CoreType":                                  coreTypeCompat,
	"go/token.NewFileSet":                                token.NewFileSet,
	"github.com/cloudflare/ahocorasick.NewStringMatcher": ahocorasick.NewStringMatcher,
}

// coreTypeCompat: the core type of t (its underlying type unless t is a type parameter with a single core type)
func coreTypeCompat(t types.Type) types.Type { return t.Underlying() }

func hostIsNil(h *HostV) bool {
	if h == nil || !h.rv.IsValid() {
		return true
	}
	switch h.rv.Kind() {
	case reflect.Ptr, reflect.Map, reflect.Slice, reflect.Interface, reflect.Func, reflect.Chan:
		return h.rv.IsNil()
	}
	return false
}

// goTypeOfReflect maps a reflect type of a host value to the go/types type in the loaded program.
func (in *Interp) goTypeOfReflect(rt reflect.Type) types.Type {
	depth := 0
	for rt.Kind() == reflect.Ptr {
		rt = rt.Elem()
		depth++
	}
	var t types.Type
	if rt.PkgPath() != "" && rt.Name() != "" {
		t = in.P.LookupType(rt.PkgPath(), rt.Name())
		if t == nil {
			in.fail("host type %s.%s not in loaded program", rt.PkgPath(), rt.Name())
		}
	} else {
		switch rt.Kind() {
		case reflect.String:
			t = types.Typ[types.String]
		case reflect.Int:
			t = types.Typ[types.Int]
		case reflect.Bool:
			t = types.Typ[types.Bool]
		default:
			in.fail("cannot map host type %s", rt)
		}
	}
	for i := 0; i < depth; i++ {
		t = types.NewPointer(t)
	}
	return t
}

// fromHost converts a host reflect value into an interpreter value. static may be nil.
func (in *Interp) fromHost(rv reflect.Value, static types.Type) Value {
	st := in.St
	if !rv.IsValid() {
		if static != nil {
			return in.zero(static)
		}
		return &IfaceV{}
	}
	switch rv.Kind() {
	case reflect.Bool:
		return st.Bool(rv.Bool())
	case reflect.Int, reflect.Int8, reflect.Int16, reflect.Int32, reflect.Int64:
		return st.Int(rv.Int())
	case reflect.Uint, reflect.Uint8, reflect.Uint16, reflect.Uint32, reflect.Uint64, reflect.Uintptr:
		return st.Int(int64(rv.Uint()))
	case reflect.String:
		return in.hostString(rv.String())
	case reflect.Float32, reflect.Float64:
		return &FloatV{rv.Float()}
	case reflect.Interface:
		if rv.IsNil() {
			return &IfaceV{}
		}
		el := rv.Elem()
		// native AST node travelling back from host?
		if n := in.nativeOf(el); n != nil {
			return &IfaceV{typ: in.goTypeOfReflect(el.Type()), val: n}
		}
		return &IfaceV{typ: in.goTypeOfReflect(el.Type()), val: in.fromHostConcrete(el)}
	case reflect.Slice:
		if rv.IsNil() {
			return &SliceV{}
		}
		// []byte stays concrete bytes
		elems := make([]Value, rv.Len())
		var et types.Type
		if static != nil {
			if sl, ok := static.Underlying().(*types.Slice); ok {
				et = sl.Elem()
			}
		}
		for i := range elems {
			elems[i] = in.fromHost(rv.Index(i), et)
		}
		return in.mkSlice(elems)
	}
	if static != nil {
		if _, isIface := static.Underlying().(*types.Interface); isIface {
			if hostIsNil(&HostV{rv}) && (rv.Kind() == reflect.Ptr) {
				// typed nil pointer in interface: keep as non-nil interface holding nil pointer
			}
			return &IfaceV{typ: in.goTypeOfReflect(rv.Type()), val: in.fromHostConcrete(rv)}
		}
	}
	return in.fromHostConcrete(rv)
}

func (in *Interp) fromHostConcrete(rv reflect.Value) Value {
	switch rv.Kind() {
	case reflect.Bool, reflect.Int, reflect.Int8, reflect.Int16, reflect.Int32, reflect.Int64, reflect.Uint, reflect.Uint8,
		reflect.Uint16, reflect.Uint32, reflect.Uint64, reflect.String:
		return in.fromHost(rv, nil)
	case reflect.Struct:
		// structs with only exported scalar fields are imported natively (token.Position, types.TypeAndValue is not)
		rt := rv.Type()
		allSimple := rt.NumField() > 0
		for i := 0; i < rt.NumField(); i++ {
			f := rt.Field(i)
			if f.PkgPath != "" {
				allSimple = false
				break
			}
			switch f.Type.Kind() {
			case reflect.Bool, reflect.Int, reflect.String:
			default:
				allSimple = false
			}
		}
		if allSimple {
			gt := in.goTypeOfReflect(rt)
			s := &StructV{typ: gt.Underlying().(*types.Struct), fields: make([]Value, rt.NumField())}
			for i := range s.fields {
				s.fields[i] = in.fromHost(rv.Field(i), nil)
			}
			return s
		}
		return &HostV{rv}
	case reflect.Ptr:
		if n := in.nativeOf(rv); n != nil {
			return n
		}
		if rv.IsNil() {
			return &HostV{rv}
		}
	}
	return &HostV{rv}
}

// hostString lets placeholder substitution happen for strings coming from host objects.
func (in *Interp) hostString(s string) Value {
	if in.l1 != nil {
		if e, ok := in.l1.nameEnum[s]; ok {
			return e
		}
	}
	if in.Ex.HostStringHook != nil {
		if v := in.Ex.HostStringHook(in, s); v != nil {
			return v
		}
	}
	return concStr(s)
}

// nativeOf: if rv is a pointer to a host AST node that was imported, return the native pointer.
func (in *Interp) nativeOf(rv reflect.Value) Value {
	if in.astBack == nil || rv.Kind() != reflect.Ptr || rv.IsNil() {
		return nil
	}
	if p, ok := in.astFwd[rv.Pointer()]; ok {
		return p
	}
	return nil
}

// toHost converts an interpreter value to a host reflect value of type rt.
func (in *Interp) toHost(v Value, rt reflect.Type) reflect.Value {
	switch x := v.(type) {
	case *sym.Term:
		if !x.IsConst() {
			in.fail("symbolic scalar passed to host code (%s)", rt)
		}
		r := reflect.New(rt).Elem()
		switch rt.Kind() {
		case reflect.Bool:
			r.SetBool(x.I != 0)
		case reflect.Int, reflect.Int8, reflect.Int16, reflect.Int32, reflect.Int64:
			r.SetInt(x.I)
		case reflect.Uint, reflect.Uint8, reflect.Uint16, reflect.Uint32, reflect.Uint64, reflect.Uintptr:
			r.SetUint(uint64(x.I))
		case reflect.Interface:
			if x.Sort == sym.SBool {
				return reflect.ValueOf(x.I != 0)
			}
			return reflect.ValueOf(int(x.I))
		default:
			in.fail("toHost: scalar to %s", rt)
		}
		return r
	case *Str:
		if x.kind != sConc {
			in.fail("symbolic string passed to host code (%s)", rt)
		}
		if rt.Kind() == reflect.Interface {
			return reflect.ValueOf(x.conc)
		}
		r := reflect.New(rt).Elem()
		r.SetString(x.conc)
		return r
	case *HostV:
		if !x.rv.IsValid() {
			return reflect.Zero(rt)
		}
		return x.rv
	case *IfaceV:
		if x.typ == nil {
			return reflect.Zero(rt)
		}
		return in.toHost(x.val, rt)
	case *Ptr:
		if x.IsNil() {
			return reflect.Zero(rt)
		}
		if x.host != nil {
			return x.host.rv
		}
		if in.astBack != nil && len(x.path) == 0 {
			if h, ok := in.astBack[x.cell]; ok {
				return h
			}
		}
		in.fail("native pointer passed to host code (%s)", rt)
	case *SliceV:
		if rt.Kind() != reflect.Slice {
			in.fail("toHost: slice to %s", rt)
		}
		if x.arr == nil {
			return reflect.Zero(rt)
		}
		r := reflect.MakeSlice(rt, x.len, x.len)
		for i := 0; i < x.len; i++ {
			r.Index(i).Set(in.toHost(in.load(&Ptr{cell: x.arr, path: []int{x.off + i}}), rt.Elem()))
		}
		return r
	case *BytesV:
		if x.s.kind != sConc {
			in.fail("symbolic bytes passed to host code")
		}
		return reflect.ValueOf([]byte(x.s.conc))
	case *StructV:
		r := reflect.New(rt).Elem()
		for i := range x.fields {
			if rt.Field(i).PkgPath != "" {
				continue
			}
			r.Field(i).Set(in.toHost(x.fields[i], rt.Field(i).Type))
		}
		return r
	}
	in.fail("toHost: unsupported %T -> %s", v, rt)
	return reflect.Value{}
}

func (in *Interp) hostMethodCall(recv *HostV, name string, args []Value, results *types.Tuple) Value {
	if hostIsNil(recv) && recv.rv.Kind() != reflect.Struct {
		// methods on nil host pointers generally crash natively too
		panic(&goPanic{msg: "runtime error: invalid memory address or nil pointer dereference (host receiver)", pos: in.curPos})
	}
	m := recv.rv.MethodByName(name)
	if !m.IsValid() {
		if recv.rv.CanAddr() {
			m = recv.rv.Addr().MethodByName(name)
		}
		if !m.IsValid() {
			in.fail("host method %s not found on %s", name, recv.rv.Type())
		}
	}
	in.Ex.noteHostCall(recv.rv.Type().String() + "." + name)
	return in.hostCall(m, args, results, recv.rv.Type().String()+"."+name)
}

func (in *Interp) hostFuncCall(name string, f interface{}, args []Value, results *types.Tuple) Value {
	in.Ex.noteHostCall(name)
	return in.hostCall(reflect.ValueOf(f), args, results, name)
}

func (in *Interp) hostCall(f reflect.Value, args []Value, results *types.Tuple, what string) (ret Value) {
	ft := f.Type()
	hargs := make([]reflect.Value, len(args))
	for i, a := range args {
		var pt reflect.Type
		if ft.IsVariadic() && i >= ft.NumIn()-1 {
			pt = ft.In(ft.NumIn() - 1)
			if len(args) != ft.NumIn() { // spread elements (should not happen: SSA passes the slice)
				pt = pt.Elem()
			}
		} else {
			pt = ft.In(i)
		}
		hargs[i] = in.toHost(a, pt)
	}
	var outs []reflect.Value
	func() {
		defer func() {
			if r := recover(); r != nil {
				if _, ok := r.(inconclusive); ok {
					panic(r)
				}
				panic(&goPanic{msg: fmt.Sprintf("panic in host call %s: %v", what, r), pos: in.curPos})
			}
		}()
		if ft.IsVariadic() && len(args) == ft.NumIn() {
			outs = f.CallSlice(hargs)
		} else {
			outs = f.Call(hargs)
		}
	}()
	switch len(outs) {
	case 0:
		return nil
	case 1:
		return in.fromHost(outs[0], results.At(0).Type())
	}
	t := make(TupleV, len(outs))
	for i := range outs {
		t[i] = in.fromHost(outs[i], results.At(i).Type())
	}
	return t
}

var _ = ast.Inspect
var _ = strings.Contains
