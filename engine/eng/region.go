package eng

import (
	"go/token"
	"go/types"

	"golang.org/x/tools/go/ssa"

	"verif/gosym/sym"
)

// If-conversion of small side-effect-free regions: when a branch on a symbolic condition opens an
// acyclic single-entry region of "speculable" blocks that re-converges at the branch's immediate
// post-dominator, the region is executed once with per-block guards; phis and scalar stores become
// ite-terms instead of forked paths.  Any doubt (possible panic, unsupported instruction, non-scalar
// merge) aborts the speculation and falls back to ordinary forking, so the transformation never
// changes which behaviours are explored — only how many paths represent them.

type fnInfo struct {
	ipdom []int // immediate post-dominator block index, -1 = exit
}

func (in *Interp) fnInfoOf(fn *ssa.Function) *fnInfo {
	if in.fnInfos == nil {
		in.fnInfos = map[*ssa.Function]*fnInfo{}
	}
	if fi, ok := in.fnInfos[fn]; ok {
		return fi
	}
	n := len(fn.Blocks)
	// post-dominator sets by iteration (functions are small)
	exit := n
	full := make([]bool, n+1)
	for i := range full {
		full[i] = true
	}
	pd := make([][]bool, n+1)
	for i := 0; i <= n; i++ {
		pd[i] = append([]bool(nil), full...)
	}
	pd[exit] = make([]bool, n+1)
	pd[exit][exit] = true
	succs := func(b int) []int {
		if len(fn.Blocks[b].Succs) == 0 {
			return []int{exit}
		}
		out := make([]int, len(fn.Blocks[b].Succs))
		for i, s := range fn.Blocks[b].Succs {
			out[i] = s.Index
		}
		return out
	}
	changed := true
	for changed {
		changed = false
		for b := n - 1; b >= 0; b-- {
			nw := append([]bool(nil), full...)
			for _, s := range succs(b) {
				for k := range nw {
					nw[k] = nw[k] && pd[s][k]
				}
			}
			nw[b] = true
			for k := range nw {
				if nw[k] != pd[b][k] {
					changed = true
				}
			}
			pd[b] = nw
		}
	}
	fi := &fnInfo{ipdom: make([]int, n)}
	for b := 0; b < n; b++ {
		// ipdom = the strict post-dominator that is post-dominated by all other strict post-dominators
		best := -1
		for c := 0; c <= n; c++ {
			if c == b || !pd[b][c] {
				continue
			}
			ok := true
			for d := 0; d <= n; d++ {
				if d == b || d == c || !pd[b][d] {
					continue
				}
				// c must be "closest": every other strict postdom d post-dominates c
				if !pd[c][d] {
					ok = false
					break
				}
			}
			if ok {
				best = c
				break
			}
		}
		if best == exit {
			best = -1
		}
		fi.ipdom[b] = best
	}
	in.fnInfos[fn] = fi
	return fi
}

type specAbort struct{ why string }

type specStore struct {
	p   *Ptr
	val Value
}

type specCtx struct {
	in     *Interp
	fr     *frame
	locals map[ssa.Value]Value
	writes []specStore
}

func samePtr(a, b *Ptr) bool {
	if a.cell != b.cell || len(a.path) != len(b.path) || a.host != nil || b.host != nil {
		return false
	}
	for i := range a.path {
		if a.path[i] != b.path[i] {
			return false
		}
	}
	return true
}

func overlaps(a, b *Ptr) bool {
	if a.cell != b.cell {
		return false
	}
	n := len(a.path)
	if len(b.path) < n {
		n = len(b.path)
	}
	for i := 0; i < n; i++ {
		if a.path[i] != b.path[i] {
			return false
		}
	}
	return true
}

func (sc *specCtx) get(v ssa.Value) Value {
	if x, ok := sc.locals[v]; ok {
		return x
	}
	return sc.in.get(sc.fr, v)
}

func (sc *specCtx) load(p *Ptr) Value {
	if p.IsNil() || p.host != nil {
		panic(specAbort{"load through nil/host pointer"})
	}
	for i := len(sc.writes) - 1; i >= 0; i-- {
		w := sc.writes[i]
		if samePtr(w.p, p) {
			return w.val
		}
		if overlaps(w.p, p) {
			panic(specAbort{"partial overlap of speculative store and load"})
		}
	}
	return sc.in.load(p)
}

// tryIfConvert attempts to execute the region opened by the If at the end of fr.block.
// On success it returns the join block and leaves phi overrides in fr.phiOv.
func (in *Interp) tryIfConvert(fr *frame, ifi *ssa.If, cond *sym.Term) (join *ssa.BasicBlock, ok bool) {
	if in.Ex.NoIfConv {
		return nil, false
	}
	fn := fr.fn
	fi := in.fnInfoOf(fn)
	b0 := fr.block
	j := fi.ipdom[b0.Index]
	if j < 0 {
		return nil, false
	}
	J := fn.Blocks[j]
	// collect region blocks by DFS from successors up to J
	region := map[int]bool{}
	var order []*ssa.BasicBlock
	var visit func(b *ssa.BasicBlock) bool
	state := map[int]int{} // 1 = on stack, 2 = done
	visit = func(b *ssa.BasicBlock) bool {
		if b == J {
			return true
		}
		if b == b0 {
			return false // loop back to the branch block
		}
		switch state[b.Index] {
		case 1:
			return false // cycle
		case 2:
			return true
		}
		state[b.Index] = 1
		region[b.Index] = true
		if len(region) > 12 {
			return false
		}
		if len(b.Succs) == 0 {
			return false
		}
		for _, s := range b.Succs {
			if !visit(s) {
				return false
			}
		}
		state[b.Index] = 2
		order = append(order, b) // post-order
		return true
	}
	for _, s := range b0.Succs {
		if !visit(s) {
			return nil, false
		}
	}
	// single entry: every pred of a region block is b0 or in the region
	for _, b := range order {
		for _, p := range b.Preds {
			if p != b0 && !region[p.Index] {
				return nil, false
			}
		}
		for _, ins := range b.Instrs {
			if !speculableKind(ins) {
				return nil, false
			}
		}
	}
	// reverse post-order = topological order
	for l, r := 0, len(order)-1; l < r; l, r = l+1, r-1 {
		order[l], order[r] = order[r], order[l]
	}
	st := in.St
	type edge struct{ from, to int }
	edgeG := map[edge]*sym.Term{}
	edgeG[edge{b0.Index, b0.Succs[0].Index}] = cond
	if b0.Succs[1] == b0.Succs[0] {
		return nil, false
	}
	edgeG[edge{b0.Index, b0.Succs[1].Index}] = st.Not(cond)
	sc := &specCtx{in: in, fr: fr, locals: map[ssa.Value]Value{}}
	success := false
	nObl := len(in.obligs)
	in.spec = true
	defer func() { in.spec = false; in.specGuard = nil }()
	var phiOv map[*ssa.Phi]Value
	func() {
		defer func() {
			if r := recover(); r != nil {
				switch r.(type) {
				case specAbort, *goPanic, inconclusive:
					success = false
				default:
					panic(r)
				}
			}
		}()
		guardOf := func(b *ssa.BasicBlock) *sym.Term {
			var gs []*sym.Term
			for _, p := range b.Preds {
				if g, ok := edgeG[edge{p.Index, b.Index}]; ok {
					gs = append(gs, g)
				}
			}
			return st.Or(gs...)
		}
		phiVal := func(phi *ssa.Phi, b *ssa.BasicBlock) Value {
			var res Value
			first := true
			for i, p := range b.Preds {
				g, ok := edgeG[edge{p.Index, b.Index}]
				if !ok || g.IsFalse() {
					continue
				}
				v := sc.get(phi.Edges[i])
				if first {
					res = v
					first = false
					continue
				}
				res = sc.mergeVal(g, v, res)
			}
			if first {
				panic(specAbort{"phi without live edge"})
			}
			return res
		}
		for _, b := range order {
			g := guardOf(b)
			if g.IsFalse() {
				continue // unreachable under the current conditions
			}
			in.specGuard = g
			for _, ins := range b.Instrs {
				switch x := ins.(type) {
				case *ssa.Phi:
					sc.locals[x] = phiVal(x, b)
				case *ssa.Jump:
					edgeG[edge{b.Index, b.Succs[0].Index}] = g
				case *ssa.If:
					c := sc.get(x.Cond).(*sym.Term)
					e0 := edge{b.Index, b.Succs[0].Index}
					e1 := edge{b.Index, b.Succs[1].Index}
					if e0 == e1 {
						panic(specAbort{"degenerate if"})
					}
					edgeG[e0] = st.And(g, c)
					edgeG[e1] = st.And(g, st.Not(c))
				case *ssa.Store:
					p := sc.get(x.Addr).(*Ptr)
					if p.IsNil() || p.host != nil {
						panic(specAbort{"store through nil/host pointer"})
					}
					nv := sc.get(x.Val)
					old := sc.load(p)
					sc.writes = append(sc.writes, specStore{p: p, val: sc.mergeVal(g, nv, old)})
				default:
					sc.exec(ins)
				}
			}
		}
		phiOv = map[*ssa.Phi]Value{}
		for _, ins := range J.Instrs {
			phi, ok := ins.(*ssa.Phi)
			if !ok {
				break
			}
			phiOv[phi] = phiVal(phi, J)
		}
		success = true
	}()
	in.spec = false
	in.specGuard = nil
	if !success {
		in.obligs = in.obligs[:nObl]
		in.obligPos = in.obligPos[:nObl]
		return nil, false
	}
	// commit
	for _, w := range sc.writes {
		in.store(w.p, w.val)
	}
	fr.phiOv = phiOv
	fr.phiOvFor = J
	in.Ex.noteIfConv()
	return J, true
}

func (sc *specCtx) mergeVal(g *sym.Term, a, b Value) Value {
	st := sc.in.St
	switch x := a.(type) {
	case *sym.Term:
		y, ok := b.(*sym.Term)
		if !ok || x.Sort != y.Sort {
			panic(specAbort{"merge of different kinds"})
		}
		return st.Ite(g, x, y)
	case *Str:
		y, ok := b.(*Str)
		if !ok {
			panic(specAbort{"merge of different kinds"})
		}
		if x == y {
			return x
		}
		if x.kind == sConc && y.kind == sConc && x.conc == y.conc {
			return x
		}
		if (x.kind == sConc || x.kind == sEnum) && (y.kind == sConc || y.kind == sEnum) {
			return sc.in.mergeEnum(g, x, y)
		}
		if x.kind == sAtom || y.kind == sAtom {
			ia, oka := sc.in.atomID(x)
			ib, okb := sc.in.atomID(y)
			if !oka || !okb {
				panic(specAbort{"merge atom/non-atom"})
			}
			return &Str{kind: sAtom, atom: st.Ite(g, ia, ib), max: -1}
		}
		va, vb := sc.in.toView(x), sc.in.toView(y)
		mx := va.max
		if vb.max > mx {
			mx = vb.max
		}
		if va.max < 0 || vb.max < 0 {
			mx = -1
		}
		return &Str{kind: sView, length: st.Ite(g, va.length, vb.length), max: mx, origin: "ite", at: func(i *sym.Term) *sym.Term {
			return st.Ite(g, va.at(i), vb.at(i))
		}}
	case *Ptr:
		y, ok := b.(*Ptr)
		if ok && ((x.IsNil() && y.IsNil()) || (!x.IsNil() && !y.IsNil() && samePtr(x, y))) {
			return x
		}
	case *IfaceV:
		y, ok := b.(*IfaceV)
		if ok && x.typ == nil && y.typ == nil {
			return x
		}
		if ok && x.typ != nil && y.typ != nil && types.Identical(x.typ, y.typ) {
			return &IfaceV{typ: x.typ, val: sc.mergeVal(g, x.val, y.val)}
		}
	case *StructV:
		y, ok := b.(*StructV)
		if ok && len(x.fields) == len(y.fields) {
			n := &StructV{typ: x.typ, fields: make([]Value, len(x.fields))}
			for i := range x.fields {
				n.fields[i] = sc.mergeVal(g, x.fields[i], y.fields[i])
			}
			return n
		}
	case *SliceV:
		y, ok := b.(*SliceV)
		if ok && x.arr == y.arr && x.off == y.off && x.len == y.len && x.cap == y.cap {
			return x
		}
	case *MapV:
		if y, ok := b.(*MapV); ok && x == y {
			return x
		}
	case *Closure:
		if y, ok := b.(*Closure); ok && x == y {
			return x
		}
	case *HostV:
		if y, ok := b.(*HostV); ok && hostKey(x) == hostKey(y) {
			return x
		}
	}
	panic(specAbort{"unmergeable values"})
}

func speculableKind(ins ssa.Instruction) bool {
	switch x := ins.(type) {
	case *ssa.Phi, *ssa.Jump, *ssa.If, *ssa.Store, *ssa.FieldAddr, *ssa.Field, *ssa.Extract, *ssa.ChangeType, *ssa.MakeInterface, *ssa.DebugRef, *ssa.ChangeInterface:
		return true
	case *ssa.Convert:
		return true
	case *ssa.IndexAddr, *ssa.Index:
		return true // executed only with concrete in-range indices (else abort)
	case *ssa.BinOp:
		return x.Op != token.QUO && x.Op != token.REM && x.Op != token.SHL && x.Op != token.SHR
	case *ssa.UnOp:
		return x.Op == token.MUL || x.Op == token.NOT || x.Op == token.SUB
	case *ssa.Call:
		if b, ok := x.Call.Value.(*ssa.Builtin); ok {
			return b.Name() == "len"
		}
		if f := x.Call.StaticCallee(); f != nil {
			return pureIntrinsics[f.String()]
		}
		return false
	case *ssa.Lookup:
		_, isStr := x.X.Type().Underlying().(*types.Basic)
		return isStr
	}
	return false
}

var pureIntrinsics = map[string]bool{
	ndPkg + ".And": true, ndPkg + ".Or": true, ndPkg + ".Not": true, ndPkg + ".Implies": true, ndPkg + ".Iff": true,
	ndPkg + ".StrEq": true, ndPkg + ".IteInt": true, ndPkg + ".IteStr": true,
	"strings.HasPrefix": true, "strings.HasSuffix": true, "strings.Contains": true,
}

// exec evaluates one speculable, non-control instruction into the speculative locals.
func (sc *specCtx) exec(ins ssa.Instruction) {
	in := sc.in
	switch x := ins.(type) {
	case *ssa.DebugRef:
	case *ssa.BinOp:
		nob := len(in.obligs)
		npc := len(in.pc)
		v := in.binop(x.Op, sc.get(x.X), sc.get(x.Y), x.X.Type(), x.Type())
		if len(in.pc) != npc {
			panic(specAbort{"binop forked"})
		}
		_ = nob // obligations recorded under speculation are kept: they are conservative (unguarded)
		sc.locals[x] = v
	case *ssa.UnOp:
		v := sc.get(x.X)
		switch x.Op {
		case token.MUL:
			sc.locals[x] = sc.load(v.(*Ptr))
		case token.NOT:
			sc.locals[x] = in.St.Not(v.(*sym.Term))
		case token.SUB:
			t, ok := v.(*sym.Term)
			if !ok {
				panic(specAbort{"neg of non-int"})
			}
			r := in.St.Neg(t)
			in.intResult(r, x.Type(), "neg")
			sc.locals[x] = in.wrapConst(r, x.Type())
		}
	case *ssa.FieldAddr:
		p := sc.get(x.X).(*Ptr)
		if p.IsNil() || p.host != nil {
			panic(specAbort{"fieldaddr nil/host"})
		}
		np := make([]int, len(p.path)+1)
		copy(np, p.path)
		np[len(p.path)] = x.Field
		sc.locals[x] = &Ptr{cell: p.cell, path: np}
	case *ssa.Field:
		s, ok := sc.get(x.X).(*StructV)
		if !ok {
			panic(specAbort{"field of non-native struct"})
		}
		if _, bad := s.fields[x.Field].(poison); bad {
			panic(specAbort{"poison"})
		}
		sc.locals[x] = deepCopy(s.fields[x.Field])
	case *ssa.Extract:
		sc.locals[x] = sc.get(x.Tuple).(TupleV)[x.Index]
	case *ssa.ChangeType:
		sc.locals[x] = sc.get(x.X)
	case *ssa.ChangeInterface:
		sc.locals[x] = sc.get(x.X)
	case *ssa.MakeInterface:
		sc.locals[x] = in.makeIface(x.X.Type(), sc.get(x.X))
	case *ssa.Convert:
		v := sc.get(x.X)
		switch v.(type) {
		case *sym.Term, *Str:
			sc.locals[x] = in.convert(v, x.X.Type(), x.Type())
		default:
			panic(specAbort{"convert of aggregate"})
		}
	case *ssa.IndexAddr:
		idx := sc.get(x.Index).(*sym.Term)
		if !idx.IsConst() {
			panic(specAbort{"symbolic index"})
		}
		switch b := sc.get(x.X).(type) {
		case *SliceV:
			if idx.I < 0 || idx.I >= int64(b.len) {
				panic(specAbort{"index out of range"})
			}
			sc.locals[x] = &Ptr{cell: b.arr, path: []int{b.off + int(idx.I)}}
		default:
			panic(specAbort{"indexaddr base"})
		}
	case *ssa.Index, *ssa.Lookup:
		var base Value
		var idx *sym.Term
		if ix, ok := x.(*ssa.Index); ok {
			base, idx = sc.get(ix.X), sc.get(ix.Index).(*sym.Term)
		} else {
			lx := x.(*ssa.Lookup)
			base, idx = sc.get(lx.X), sc.get(lx.Index).(*sym.Term)
		}
		s, ok := base.(*Str)
		if !ok {
			panic(specAbort{"index of non-string"})
		}
		ln := in.strLen(s)
		inb := in.St.And(in.St.Le(in.St.Int(0), idx), in.St.Lt(idx, ln))
		if !inb.IsTrue() {
			panic(specAbort{"string index possibly out of range"})
		}
		sc.locals[x.(ssa.Value)] = in.strAt(s, idx)
	case *ssa.Call:
		args := make([]Value, len(x.Call.Args))
		for i, a := range x.Call.Args {
			args[i] = sc.get(a)
		}
		if b, ok := x.Call.Value.(*ssa.Builtin); ok && b.Name() == "len" {
			switch v := args[0].(type) {
			case *Str:
				sc.locals[x] = in.strLen(v)
			case *SliceV:
				sc.locals[x] = in.St.Int(int64(v.len))
			case *MapV:
				sc.locals[x] = in.St.Int(int64(len(v.entries)))
			case *BytesV:
				sc.locals[x] = in.strLen(v.s)
			default:
				panic(specAbort{"len of unsupported"})
			}
			return
		}
		f := x.Call.StaticCallee()
		npc := len(in.pc)
		sc.locals[x] = intrinsics[f.String()](in, f, args)
		if len(in.pc) != npc {
			panic(specAbort{"intrinsic forked"})
		}
	default:
		panic(specAbort{"unsupported in region"})
	}
}

// mergeEnum: ite of two finite-domain strings is again a finite-domain string.
func (in *Interp) mergeEnum(g *sym.Term, x, y *Str) *Str {
	st := in.St
	var alts []string
	idx := map[string]int{}
	add := func(a string) int {
		if i, ok := idx[a]; ok {
			return i
		}
		idx[a] = len(alts)
		alts = append(alts, a)
		return len(alts) - 1
	}
	remap := func(s *Str) *sym.Term {
		if s.kind == sConc {
			return st.Int(int64(add(s.conc)))
		}
		var r *sym.Term
		for k := len(s.alts) - 1; k >= 0; k-- {
			ni := st.Int(int64(add(s.alts[k])))
			if r == nil {
				r = ni
			} else {
				r = st.Ite(st.Eq(s.sel, st.Int(int64(k))), ni, r)
			}
		}
		return r
	}
	sx := remap(x)
	sy := remap(y)
	mx := 0
	for _, a := range alts {
		if len(a) > mx {
			mx = len(a)
		}
	}
	return &Str{kind: sEnum, sel: st.Ite(g, sx, sy), alts: alts, max: mx}
}
