package eng

import (
	"fmt"
	"go/ast"
	"go/importer"
	"go/parser"
	"go/token"
	"go/types"
	"reflect"
	"sort"
	"strings"
	"sync"

	"golang.org/x/tools/go/ssa"

	"verif/gosym/sym"
)

// ---------- L1: program skeletons (parsed + type-checked by the real go/parser and go/types) ----------

type l1File struct {
	pkg, name, src string
}

type l1Hole struct {
	name string
	alts []string // alts[0] is the default used for parsing
}

type holeSite struct {
	hole   int
	kind   string // "comment" | "assigntok" | "incdectok" | "filename"
	file   int
	offset int      // byte offset of the enclosing element (comment slash / token) in the substituted source
	texts  []string // per alternative: full comment text / token text
}

// l1Host is the shared, read-only host side of a skeleton (one per distinct default-substituted source).
type l1Host struct {
	fset   *token.FileSet
	files  map[string][]*ast.File
	pkgs   map[string]*types.Package
	infos  map[string]*types.Info
	srcs   map[string]string
	order  []string
	flat   []*ast.File
	fnames []string // full names, parallel to flat
	sites  []holeSite
	err    error
}

var (
	l1Mu    sync.Mutex
	l1Cache = map[string]*l1Host{}
	l1Std   types.Importer
	l1StdMu sync.Mutex
)

type l1Importer struct{ h *l1Host }

func (pi l1Importer) Import(path string) (*types.Package, error) {
	if p, ok := pi.h.pkgs[path]; ok {
		return p, nil
	}
	l1StdMu.Lock()
	defer l1StdMu.Unlock()
	if l1Std == nil {
		l1Std = importer.ForCompiler(token.NewFileSet(), "source", nil)
	}
	return l1Std.Import(path)
}

func substHoles(s string, holes []l1Hole, choice map[int]int) string {
	for i, h := range holes {
		s = strings.ReplaceAll(s, "«"+h.name+"»", h.alts[choice[i]])
	}
	return s
}

func parseAndCheck(files []l1File, holes []l1Hole, choice map[int]int) (*l1Host, error) {
	h := &l1Host{fset: token.NewFileSet(), files: map[string][]*ast.File{}, pkgs: map[string]*types.Package{}, infos: map[string]*types.Info{}, srcs: map[string]string{}}
	for _, f := range files {
		if _, ok := h.files[f.pkg]; !ok {
			h.order = append(h.order, f.pkg)
			h.files[f.pkg] = nil
		}
		name := "/zz/" + f.pkg + "/" + substHoles(f.name, holes, choice)
		src := substHoles(f.src, holes, choice)
		af, err := parser.ParseFile(h.fset, name, src, parser.ParseComments|parser.SkipObjectResolution)
		if err != nil {
			return nil, fmt.Errorf("skeleton does not parse: %v", err)
		}
		h.files[f.pkg] = append(h.files[f.pkg], af)
		h.srcs[name] = src
		h.flat = append(h.flat, af)
		h.fnames = append(h.fnames, name)
	}
	for _, path := range h.order {
		info := &types.Info{
			Types:      map[ast.Expr]types.TypeAndValue{},
			Defs:       map[*ast.Ident]types.Object{},
			Uses:       map[*ast.Ident]types.Object{},
			Implicits:  map[ast.Node]types.Object{},
			Selections: map[*ast.SelectorExpr]*types.Selection{},
			Scopes:     map[ast.Node]*types.Scope{},
			Instances:  map[*ast.Ident]types.Instance{},
		}
		conf := types.Config{Importer: l1Importer{h}}
		pkg, err := conf.Check(path, h.fset, h.files[path], info)
		if err != nil {
			return nil, fmt.Errorf("skeleton does not type-check: %v", err)
		}
		h.pkgs[path] = pkg
		h.infos[path] = info
	}
	return h, nil
}

// shapeSig: node kinds and extents in pre-order; identical for all alternatives of a hole means
// that the alternatives only differ in the holed field.
func shapeSig(h *l1Host) string {
	var b strings.Builder
	for _, f := range h.flat {
		ast.Inspect(f, func(n ast.Node) bool {
			if n == nil {
				return true
			}
			fmt.Fprintf(&b, "%T:%d-%d;", n, n.Pos(), n.End())
			return true
		})
		for _, cg := range f.Comments {
			for _, c := range cg.List {
				fmt.Fprintf(&b, "C:%d-%d;", c.Pos(), c.End())
			}
		}
	}
	return b.String()
}

func buildL1Host(files []l1File, holes []l1Hole) *l1Host {
	def := map[int]int{}
	h, err := parseAndCheck(files, holes, def)
	if err != nil {
		return &l1Host{err: err}
	}
	base := shapeSig(h)
	// every alternative must parse, type-check and leave the shape unchanged
	for i, hole := range holes {
		lens := len(hole.alts[0])
		for a := 1; a < len(hole.alts); a++ {
			if len(hole.alts[a]) != lens {
				// file-name holes may differ in length
				inSrc := false
				for _, f := range files {
					if strings.Contains(f.src, "«"+hole.name+"»") {
						inSrc = true
					}
				}
				if inSrc {
					return &l1Host{err: fmt.Errorf("hole %s: alternatives differ in length (%q vs %q)", hole.name, hole.alts[0], hole.alts[a])}
				}
			}
			alt, err := parseAndCheck(files, holes, map[int]int{i: a})
			if err != nil {
				return &l1Host{err: fmt.Errorf("hole %s alternative %q: %v", hole.name, hole.alts[a], err)}
			}
			if shapeSig(alt) != base {
				return &l1Host{err: fmt.Errorf("hole %s alternative %q changes the AST shape", hole.name, hole.alts[a])}
			}
		}
	}
	// locate hole occurrences
	for fi, f := range files {
		for hi, hole := range holes {
			marker := "«" + hole.name + "»"
			if strings.Contains(f.name, marker) {
				texts := make([]string, len(hole.alts))
				for a := range hole.alts {
					texts[a] = "/zz/" + f.pkg + "/" + substHoles(f.name, holes, map[int]int{hi: a})
				}
				h.sites = append(h.sites, holeSite{hole: hi, kind: "filename", file: fi, texts: texts})
			}
			rest := f.src
			consumed := 0
			for {
				i := strings.Index(rest, marker)
				if i < 0 {
					break
				}
				off := len(substHoles(f.src[:consumed+i], holes, def))
				site, err := locateSite(h, fi, off, len(hole.alts[0]), hi, hole, f, holes)
				if err != nil {
					return &l1Host{err: err}
				}
				h.sites = append(h.sites, site)
				consumed += i + len(marker)
				rest = f.src[consumed:]
			}
		}
	}
	return h
}

func locateSite(h *l1Host, fi, off, width, hi int, hole l1Hole, f l1File, holes []l1Hole) (holeSite, error) {
	af := h.flat[fi]
	tf := h.fset.File(af.Pos())
	pos := tf.Pos(off)
	// inside a comment?
	for _, cg := range af.Comments {
		for _, c := range cg.List {
			if c.Pos() <= pos && pos < c.End() {
				rel := int(pos - c.Pos())
				texts := make([]string, len(hole.alts))
				for a, alt := range hole.alts {
					texts[a] = c.Text[:rel] + alt + c.Text[rel+width:]
				}
				return holeSite{hole: hi, kind: "comment", file: fi, offset: tf.Offset(c.Pos()), texts: texts}, nil
			}
		}
	}
	var found *holeSite
	ast.Inspect(af, func(n ast.Node) bool {
		switch x := n.(type) {
		case *ast.AssignStmt:
			if x.TokPos >= pos && x.TokPos < pos+token.Pos(width) {
				found = &holeSite{hole: hi, kind: "assigntok", file: fi, offset: tf.Offset(x.TokPos), texts: hole.alts}
			}
		case *ast.IncDecStmt:
			if x.TokPos >= pos && x.TokPos < pos+token.Pos(width) {
				found = &holeSite{hole: hi, kind: "incdectok", file: fi, offset: tf.Offset(x.TokPos), texts: hole.alts}
			}
		}
		return true
	})
	if found != nil {
		return *found, nil
	}
	return holeSite{}, fmt.Errorf("hole %s at offset %d of %s is neither inside a comment nor an assignment/incdec token", hole.name, off, f.name)
}

func tokenOf(s string) (token.Token, bool) {
	s = strings.TrimSpace(s)
	for t := token.Token(0); t < token.TILDE+1; t++ {
		if t.String() == s && t.IsOperator() {
			return t, true
		}
	}
	return token.ILLEGAL, false
}

type posAnswer struct {
	pos       *sym.Term
	name      *Str
	line, col *sym.Term
}

// l1Prog is the per-path interpreter-side handle.
type l1Prog struct {
	host     *l1Host
	files    map[string]Value // pkg -> native []*ast.File
	nameEnum map[string]*Str  // default full file name -> symbolic file name
}

func (in *Interp) astStructType(rt reflect.Type) *types.Struct {
	if in.astTypes == nil {
		in.astTypes = map[reflect.Type]*types.Struct{}
	}
	if t, ok := in.astTypes[rt]; ok {
		return t
	}
	gt := in.goTypeOfReflect(rt)
	st, ok := gt.Underlying().(*types.Struct)
	if !ok {
		in.fail("AST import: %s is not a struct", rt)
	}
	in.astTypes[rt] = st
	return st
}

// importAST deep-copies a host go/ast value into the interpreter heap (exported fields only; pointer identity kept).
func (in *Interp) importAST(rv reflect.Value) Value {
	st := in.St
	switch rv.Kind() {
	case reflect.Ptr:
		if rv.IsNil() {
			return NilPtr
		}
		if p, ok := in.astFwd[rv.Pointer()]; ok {
			return p
		}
		if rv.Elem().Kind() != reflect.Struct {
			in.fail("AST import: pointer to %s", rv.Elem().Kind())
		}
		et := rv.Elem().Type()
		if et.PkgPath() == "go/ast" && (et.Name() == "Object" || et.Name() == "Scope") {
			return poison("ast." + et.Name() + " (object resolution is skipped)")
		}
		cell := in.newCell(nil, "ast:"+et.Name())
		p := &Ptr{cell: cell}
		in.astFwd[rv.Pointer()] = p
		in.astBack[cell] = rv
		cell.val = in.importAST(rv.Elem())
		return p
	case reflect.Struct:
		rt := rv.Type()
		gst := in.astStructType(rt)
		s := &StructV{typ: gst, fields: make([]Value, rt.NumField())}
		for i := 0; i < rt.NumField(); i++ {
			if rt.Field(i).PkgPath != "" {
				s.fields[i] = poison("unexported field " + rt.Name() + "." + rt.Field(i).Name)
				continue
			}
			s.fields[i] = in.importAST(rv.Field(i))
		}
		return s
	case reflect.Slice:
		if rv.IsNil() {
			return &SliceV{}
		}
		elems := make([]Value, rv.Len())
		for i := range elems {
			elems[i] = in.importAST(rv.Index(i))
		}
		return in.mkSlice(elems)
	case reflect.Interface:
		if rv.IsNil() {
			return &IfaceV{}
		}
		el := rv.Elem()
		return &IfaceV{typ: in.goTypeOfReflect(el.Type()), val: in.importAST(el)}
	case reflect.String:
		return concStr(rv.String())
	case reflect.Bool:
		return st.Bool(rv.Bool())
	case reflect.Int, reflect.Int8, reflect.Int16, reflect.Int32, reflect.Int64:
		return st.Int(rv.Int())
	case reflect.Uint, reflect.Uint8, reflect.Uint16, reflect.Uint32, reflect.Uint64:
		return st.Int(int64(rv.Uint()))
	case reflect.Map:
		if rv.IsNil() {
			return &MapV{isNil: true}
		}
		return poison("map in AST")
	}
	in.fail("AST import: unsupported kind %s", rv.Kind())
	return nil
}

func (in *Interp) setField(p *Ptr, structT reflect.Type, field string, v Value) {
	f, ok := structT.FieldByName(field)
	if !ok {
		in.fail("no field %s in %s", field, structT)
	}
	in.store(&Ptr{cell: p.cell, path: append(append([]int{}, p.path...), f.Index[0])}, v)
}

func registerL1Intrinsics() {
	intrinsics[ndPkg+".LoadProgram"] = func(in *Interp, fn *ssa.Function, a []Value) Value {
		var files []l1File
		for _, fv := range in.sliceElems(a[0]) {
			s := fv.(*StructV)
			get := func(i int) string {
				x := s.fields[i].(*Str)
				if x.kind != sConc {
					in.fail("nd.LoadProgram: file fields must be concrete")
				}
				return x.conc
			}
			files = append(files, l1File{pkg: get(0), name: get(1), src: get(2)})
		}
		var holes []l1Hole
		var holeVals []*Str
		for _, hv := range in.sliceElems(a[1]) {
			s := hv.(*StructV)
			name := s.fields[0].(*Str)
			val := s.fields[1].(*Str)
			if name.kind != sConc {
				in.fail("nd.LoadProgram: hole names must be concrete")
			}
			switch val.kind {
			case sConc:
				holes = append(holes, l1Hole{name: name.conc, alts: []string{val.conc}})
			case sEnum:
				holes = append(holes, l1Hole{name: name.conc, alts: val.alts})
			default:
				in.fail("nd.LoadProgram: hole values must be nd.Enum results")
			}
			holeVals = append(holeVals, val)
		}
		// cache key: everything that determines the host side
		var kb strings.Builder
		for _, f := range files {
			kb.WriteString(f.pkg + "\x00" + f.name + "\x00" + f.src + "\x01")
		}
		for _, h := range holes {
			kb.WriteString(h.name + "\x00" + strings.Join(h.alts, "\x02") + "\x01")
		}
		key := kb.String()
		l1Mu.Lock()
		host, ok := l1Cache[key]
		if !ok {
			host = buildL1Host(files, holes)
			l1Cache[key] = host
		}
		l1Mu.Unlock()
		if host.err != nil {
			in.fail("skeleton ill-formed (generator defect, not a finding): %v", host.err)
		}
		in.Ex.noteSkeleton(key, len(files), len(holes))
		// import into this path's heap
		if in.astBack == nil {
			in.astBack = map[*Cell]reflect.Value{}
			in.astFwd = map[uintptr]*Ptr{}
		}
		lp := &l1Prog{host: host, files: map[string]Value{}, nameEnum: map[string]*Str{}}
		for _, pkg := range host.order {
			var elems []Value
			for _, f := range host.files[pkg] {
				elems = append(elems, in.importAST(reflect.ValueOf(f)))
			}
			lp.files[pkg] = in.mkSlice(elems)
		}
		// apply symbolic holes
		st := in.St
		for _, site := range host.sites {
			val := holeVals[site.hole]
			if val.kind == sConc {
				continue // single alternative: the parsed default is the value
			}
			af := host.flat[site.file]
			tf := host.fset.File(af.Pos())
			switch site.kind {
			case "filename":
				lp.nameEnum[site.texts[0]] = &Str{kind: sEnum, sel: val.sel, alts: site.texts, max: maxLen(site.texts)}
			case "comment":
				for _, cg := range af.Comments {
					for _, c := range cg.List {
						if tf.Offset(c.Pos()) == site.offset {
							p := in.astFwd[reflect.ValueOf(c).Pointer()]
							in.setField(p, reflect.TypeOf(ast.Comment{}), "Text", &Str{kind: sEnum, sel: val.sel, alts: site.texts, max: maxLen(site.texts)})
						}
					}
				}
			case "assigntok", "incdectok":
				// token value as an ite over the selector
				var tokT *sym.Term
				for k := len(site.texts) - 1; k >= 0; k-- {
					tk, ok := tokenOf(site.texts[k])
					if !ok {
						in.fail("hole alternative %q is not an operator token", site.texts[k])
					}
					tv := st.Int(int64(tk))
					if tokT == nil {
						tokT = tv
					} else {
						tokT = st.Ite(st.Eq(val.sel, st.Int(int64(k))), tv, tokT)
					}
				}
				ast.Inspect(af, func(n ast.Node) bool {
					switch x := n.(type) {
					case *ast.AssignStmt:
						if site.kind == "assigntok" && tf.Offset(x.TokPos) == site.offset {
							in.setField(in.astFwd[reflect.ValueOf(x).Pointer()], reflect.TypeOf(ast.AssignStmt{}), "Tok", tokT)
						}
					case *ast.IncDecStmt:
						if site.kind == "incdectok" && tf.Offset(x.TokPos) == site.offset {
							in.setField(in.astFwd[reflect.ValueOf(x).Pointer()], reflect.TypeOf(ast.IncDecStmt{}), "Tok", tokT)
						}
					}
					return true
				})
			}
		}
		in.l1 = lp
		return &HostV{reflect.ValueOf(lp)}
	}
	progOf := func(in *Interp, v Value) *l1Prog {
		h, ok := v.(*HostV)
		if !ok {
			in.fail("nd.Prog method on %T", v)
		}
		return h.rv.Interface().(*l1Prog)
	}
	pkgArg := func(in *Interp, v Value) string {
		s := v.(*Str)
		if s.kind != sConc {
			in.fail("package path must be concrete")
		}
		return s.conc
	}
	recv := "(*" + ndPkg + ".Prog)."
	intrinsics[recv+"Fset"] = func(in *Interp, fn *ssa.Function, a []Value) Value {
		return &HostV{reflect.ValueOf(progOf(in, a[0]).host.fset)}
	}
	intrinsics[recv+"Files"] = func(in *Interp, fn *ssa.Function, a []Value) Value {
		v, ok := progOf(in, a[0]).files[pkgArg(in, a[1])]
		if !ok {
			return &SliceV{}
		}
		return v
	}
	intrinsics[recv+"Pkg"] = func(in *Interp, fn *ssa.Function, a []Value) Value {
		p := progOf(in, a[0]).host.pkgs[pkgArg(in, a[1])]
		if p == nil {
			return &HostV{reflect.ValueOf((*types.Package)(nil))}
		}
		return &HostV{reflect.ValueOf(p)}
	}
	intrinsics[recv+"Info"] = func(in *Interp, fn *ssa.Function, a []Value) Value {
		return &HostV{reflect.ValueOf(progOf(in, a[0]).host.infos[pkgArg(in, a[1])])}
	}
	intrinsics[recv+"Source"] = func(in *Interp, fn *ssa.Function, a []Value) Value {
		name := a[1].(*Str)
		if name.kind != sConc {
			in.fail("Prog.Source with symbolic file name")
		}
		s, ok := progOf(in, a[0]).host.srcs[name.conc]
		return TupleV{concStr(s), in.St.Bool(ok)}
	}
	intrinsics[recv+"PosOf"] = func(in *Interp, fn *ssa.Function, a []Value) Value {
		name := a[1].(*Str)
		off := a[2].(*sym.Term)
		if name.kind != sConc {
			in.fail("Prog.PosOf with symbolic file name")
		}
		var base int64 = -1
		progOf(in, a[0]).host.fset.Iterate(func(f *token.File) bool {
			if f.Name() == name.conc {
				base = int64(f.Base())
				return false
			}
			return true
		})
		if base < 0 {
			in.fail("Prog.PosOf: unknown file %s", name.conc)
		}
		return in.St.Add(in.St.Int(base), off)
	}
	intrinsics[recv+"FileNames"] = func(in *Interp, fn *ssa.Function, a []Value) Value {
		var names []string
		for n := range progOf(in, a[0]).host.srcs {
			names = append(names, n)
		}
		sort.Strings(names)
		vs := make([]Value, len(names))
		for i, n := range names {
			vs[i] = concStr(n)
		}
		return in.mkSlice(vs)
	}
	for _, n := range []string{"PoisonFiles", "PoisonInfo", "PoisonFset"} {
		name := n
		intrinsics[ndPkg+"."+name] = func(in *Interp, fn *ssa.Function, a []Value) Value { return poison("nd." + name) }
	}
	// nd.FsetFor: a file set whose Position() answers (name, line, col) for the returned symbolic position
	intrinsics[ndPkg+".FsetFor"] = func(in *Interp, fn *ssa.Function, a []Value) Value {
		fs := token.NewFileSet()
		h := &HostV{reflect.ValueOf(fs)}
		pos := in.St.Var(in.freshName("pos"), sym.SInt)
		in.addPC(in.St.InRange(pos, 1, 1<<31-1))
		if in.posOverride == nil {
			in.posOverride = map[*token.FileSet]posAnswer{}
		}
		in.posOverride[fs] = posAnswer{pos: pos, name: a[0].(*Str), line: a[2].(*sym.Term), col: a[3].(*sym.Term)}
		in.stubs["token.FileSet.Position for nd.FsetFor file sets: answers the (file, line, column) the harness chose for the symbolic position"] = true
		return TupleV{h, pos}
	}
	intrinsics["(*go/token.FileSet).Position"] = func(in *Interp, fn *ssa.Function, a []Value) Value {
		h, ok := a[0].(*HostV)
		if !ok {
			in.fail("FileSet.Position on %T", a[0])
		}
		fs := h.rv.Interface().(*token.FileSet)
		if ans, ok := in.posOverride[fs]; ok {
			p := a[1].(*sym.Term)
			if p != ans.pos {
				in.fail("FileSet.Position on an nd.FsetFor file set with a position other than the one handed out")
			}
			pt := in.P.LookupType("go/token", "Position").Underlying().(*types.Struct)
			return &StructV{typ: pt, fields: []Value{ans.name, in.St.Int(0), ans.line, ans.col}}
		}
		return in.hostMethodCall(h, "Position", a[1:], fn.Signature.Results())
	}
	intrinsics[ndPkg+".LineOf"] = func(in *Interp, fn *ssa.Function, a []Value) Value {
		src, needle := a[0].(*Str), a[1].(*Str)
		if src.kind != sConc || needle.kind != sConc {
			in.fail("nd.LineOf needs concrete arguments")
		}
		i, err := LineNeedleIndex(src.conc, needle.conc)
		if err != "" {
			in.fail("nd.LineOf: %s", err)
		}
		return in.St.Int(int64(1 + strings.Count(src.conc[:i], "\n")))
	}
	intrinsics[ndPkg+".LineStartOf"] = func(in *Interp, fn *ssa.Function, a []Value) Value {
		src, needle := a[0].(*Str), a[2].(*Str)
		if src.kind != sConc || needle.kind != sConc {
			in.fail("nd.LineStartOf needs concrete arguments")
		}
		var holes []l1Hole
		for _, hv := range in.sliceElems(a[1]) {
			s := hv.(*StructV)
			name := s.fields[0].(*Str)
			val := s.fields[1].(*Str)
			switch val.kind {
			case sConc:
				holes = append(holes, l1Hole{name: name.conc, alts: []string{val.conc}})
			case sEnum:
				holes = append(holes, l1Hole{name: name.conc, alts: val.alts})
			}
		}
		i := strings.Index(src.conc, needle.conc)
		if i < 0 {
			in.fail("nd.LineStartOf: needle %q not found", needle.conc)
		}
		sub := substHoles(src.conc[:i], holes, map[int]int{})
		return in.St.Int(int64(strings.LastIndex(sub, "\n") + 1))
	}
	intrinsics[ndPkg+".OffsetOf"] = func(in *Interp, fn *ssa.Function, a []Value) Value {
		src, needle := a[0].(*Str), a[2].(*Str)
		if src.kind != sConc || needle.kind != sConc {
			in.fail("nd.OffsetOf needs concrete arguments")
		}
		var holes []l1Hole
		for _, hv := range in.sliceElems(a[1]) {
			s := hv.(*StructV)
			name := s.fields[0].(*Str)
			val := s.fields[1].(*Str)
			switch val.kind {
			case sConc:
				holes = append(holes, l1Hole{name: name.conc, alts: []string{val.conc}})
			case sEnum:
				holes = append(holes, l1Hole{name: name.conc, alts: val.alts})
			}
		}
		i := strings.Index(src.conc, needle.conc)
		if i < 0 {
			in.fail("nd.OffsetOf: needle %q not found", needle.conc)
		}
		return in.St.Int(int64(len(substHoles(src.conc[:i], holes, map[int]int{}))))
	}
}

func maxLen(ss []string) int {
	m := 0
	for _, s := range ss {
		if len(s) > m {
			m = len(s)
		}
	}
	return m
}

func (ex *Explorer) noteSkeleton(key string, files, holes int) {
	ex.mu.Lock()
	if ex.Skeletons == nil {
		ex.Skeletons = map[string]string{}
	}
	if _, ok := ex.Skeletons[key]; !ok {
		ex.Skeletons[key] = fmt.Sprintf("%d files, %d holes", files, holes)
	}
	ex.mu.Unlock()
}

// LineNeedleIndex finds the landmark: the needle at the end of a line if that is unique, else the needle anywhere if unique.
func LineNeedleIndex(src, needle string) (int, string) {
	if strings.Count(src, needle+"\n") == 1 {
		return strings.Index(src, needle+"\n"), ""
	}
	switch strings.Count(src, needle) {
	case 0:
		return -1, "needle \"" + needle + "\" not found"
	case 1:
		return strings.Index(src, needle), ""
	}
	return -1, "needle \"" + needle + "\" is not unique in the skeleton source (harness defect)"
}
