package eng

import (
	"bufio"
	"fmt"
	"os/exec"
	"regexp/syntax"
	"strings"
	"time"
)

// RegLan translates a Go regular expression that is anchored at both ends (^...$) into an SMT-LIB
// RegLan term over the ASCII alphabet. Used only for unbounded language-level queries (recognition,
// no captures).  Returns an error for constructs outside the supported fragment.
func RegLan(src string) (string, error) {
	re, err := syntax.Parse(src, syntax.Perl)
	if err != nil {
		return "", err
	}
	// strip the anchors: a concat starting with ^ and ending with $ (text or, under (?m), line anchors)
	subs := []*syntax.Regexp{re}
	if re.Op == syntax.OpConcat {
		subs = re.Sub
	}
	if len(subs) < 1 {
		return "", fmt.Errorf("empty regex: %s", src)
	}
	first, last := subs[0].Op, subs[len(subs)-1].Op
	var parts []string
	all := `(re.* (re.range "\u{0}" "\u{7f}"))`
	// a pattern without a leading / trailing anchor matches anywhere: the recognised language gets a free prefix / suffix
	if first != syntax.OpBeginText && first != syntax.OpBeginLine {
		subs = append([]*syntax.Regexp{{Op: syntax.OpBeginText}}, subs...)
		parts = append(parts, all)
		first = syntax.OpBeginText
	}
	freeSuffix := false
	if last != syntax.OpEndText && last != syntax.OpEndLine {
		subs = append(append([]*syntax.Regexp{}, subs...), &syntax.Regexp{Op: syntax.OpEndText})
		freeSuffix = true
		last = syntax.OpEndText
	}
	if first == syntax.OpBeginLine {
		// (?m)^ : start of text or just after a newline
		parts = append(parts, `(re.opt (re.++ `+all+` (str.to_re "\u{a}")))`)
	}
	// a top-level \b / \B splits the subject: the language is the union over "left part ends in a word character"
	// and "right part begins with one" of the products of the restricted halves (exact; nested boundaries are unsupported)
	type seg struct {
		parts []string
		bnd   syntax.Op // boundary that FOLLOWS this segment (0 for the last)
	}
	segs := []seg{{parts: parts}}
	for _, s := range subs[1 : len(subs)-1] {
		if s.Op == syntax.OpWordBoundary || s.Op == syntax.OpNoWordBoundary {
			segs[len(segs)-1].bnd = s.Op
			segs = append(segs, seg{})
			continue
		}
		t, err := regLan(s)
		if err != nil {
			return "", err
		}
		segs[len(segs)-1].parts = append(segs[len(segs)-1].parts, t)
	}
	if last == syntax.OpEndLine {
		segs[len(segs)-1].parts = append(segs[len(segs)-1].parts, `(re.opt (re.++ (str.to_re "\u{a}") `+all+`))`)
	}
	if freeSuffix {
		segs[len(segs)-1].parts = append(segs[len(segs)-1].parts, all)
	}
	word := `(re.union (re.range "0" "9") (re.range "A" "Z") (re.range "a" "z") (str.to_re "_"))`
	nonword := `(re.diff (re.range "\u{0}" "\u{7f}") ` + word + `)`
	endsW := `(re.++ ` + all + ` ` + word + `)`
	endsN := `(re.union (str.to_re "") (re.++ ` + all + ` ` + nonword + `))`
	beginsW := `(re.++ ` + word + ` ` + all + `)`
	beginsN := `(re.union (str.to_re "") (re.++ ` + nonword + ` ` + all + `))`
	// fold from the right: rest = language of everything after the boundary
	rest := reConcat(segs[len(segs)-1].parts)
	for i := len(segs) - 2; i >= 0; i-- {
		left := reConcat(segs[i].parts)
		if i > 0 {
			// the character before this boundary may belong to an earlier segment when this one is empty: unsupported
			if len(segs[i].parts) == 0 {
				return "", fmt.Errorf("adjacent word boundaries unsupported in RegLan translation")
			}
			return "", fmt.Errorf("more than one top-level word boundary unsupported in RegLan translation")
		}
		lw, ln := `(re.inter `+left+` `+endsW+`)`, `(re.inter `+left+` `+endsN+`)`
		rw, rn := `(re.inter `+rest+` `+beginsW+`)`, `(re.inter `+rest+` `+beginsN+`)`
		if segs[i].bnd == syntax.OpWordBoundary {
			rest = `(re.union (re.++ ` + lw + ` ` + rn + `) (re.++ ` + ln + ` ` + rw + `))`
		} else {
			rest = `(re.union (re.++ ` + lw + ` ` + rw + `) (re.++ ` + ln + ` ` + rn + `))`
		}
	}
	return rest, nil
}

func reConcat(parts []string) string {
	switch len(parts) {
	case 0:
		return `(str.to_re "")`
	case 1:
		return parts[0]
	}
	return "(re.++ " + strings.Join(parts, " ") + ")"
}

func smtChar(r rune) string {
	if r >= 0x20 && r < 0x7f && r != '"' && r != '\\' {
		return string(r)
	}
	return fmt.Sprintf(`\u{%x}`, r)
}

func SmtString(s string) string {
	var b strings.Builder
	b.WriteByte('"')
	for _, r := range s {
		if r == '"' {
			b.WriteString(`""`)
		} else {
			b.WriteString(smtChar(r))
		}
	}
	b.WriteByte('"')
	return b.String()
}

func reRange(lo, hi rune) string {
	if hi > 0x7f {
		hi = 0x7f
	}
	if lo > hi {
		return "re.none"
	}
	if lo == hi {
		return `(str.to_re "` + smtChar(lo) + `")`
	}
	return `(re.range "` + smtChar(lo) + `" "` + smtChar(hi) + `")`
}

func reUnion(parts []string) string {
	var ps []string
	for _, p := range parts {
		if p != "re.none" {
			ps = append(ps, p)
		}
	}
	switch len(ps) {
	case 0:
		return "re.none"
	case 1:
		return ps[0]
	}
	return "(re.union " + strings.Join(ps, " ") + ")"
}

func regLan(re *syntax.Regexp) (string, error) {
	switch re.Op {
	case syntax.OpEmptyMatch:
		return `(str.to_re "")`, nil
	case syntax.OpLiteral:
		var parts []string
		for _, r := range re.Rune {
			if re.Flags&syntax.FoldCase != 0 && ((r >= 'a' && r <= 'z') || (r >= 'A' && r <= 'Z')) {
				lo := r | 0x20
				parts = append(parts, reUnion([]string{reRange(lo, lo), reRange(lo-32, lo-32)}))
			} else {
				if r > 0x7f {
					return "re.none", nil
				}
				parts = append(parts, reRange(r, r))
			}
		}
		return reConcat(parts), nil
	case syntax.OpCharClass:
		var parts []string
		for i := 0; i+1 < len(re.Rune); i += 2 {
			parts = append(parts, reRange(re.Rune[i], re.Rune[i+1]))
		}
		return reUnion(parts), nil
	case syntax.OpAnyCharNotNL:
		return reUnion([]string{reRange(0, '\n'-1), reRange('\n'+1, 0x7f)}), nil
	case syntax.OpAnyChar:
		return reRange(0, 0x7f), nil
	case syntax.OpCapture:
		return regLan(re.Sub[0])
	case syntax.OpStar, syntax.OpPlus, syntax.OpQuest:
		t, err := regLan(re.Sub[0])
		if err != nil {
			return "", err
		}
		op := map[syntax.Op]string{syntax.OpStar: "re.*", syntax.OpPlus: "re.+", syntax.OpQuest: "re.opt"}[re.Op]
		return "(" + op + " " + t + ")", nil
	case syntax.OpRepeat:
		t, err := regLan(re.Sub[0])
		if err != nil {
			return "", err
		}
		if re.Max < 0 {
			var parts []string
			for i := 0; i < re.Min; i++ {
				parts = append(parts, t)
			}
			parts = append(parts, "(re.* "+t+")")
			return reConcat(parts), nil
		}
		return fmt.Sprintf("((_ re.loop %d %d) %s)", re.Min, re.Max, t), nil
	case syntax.OpConcat:
		var parts []string
		for _, s := range re.Sub {
			t, err := regLan(s)
			if err != nil {
				return "", err
			}
			parts = append(parts, t)
		}
		return reConcat(parts), nil
	case syntax.OpAlternate:
		var parts []string
		for _, s := range re.Sub {
			t, err := regLan(s)
			if err != nil {
				return "", err
			}
			parts = append(parts, t)
		}
		return reUnion(parts), nil
	case syntax.OpEndText:
		// `$` in a position other than the very end: only supported as the last element of an alternation
		// branch like (\s|$) — expressed by the caller; here it is the empty string followed by nothing.
		return "", fmt.Errorf("inner $ unsupported")
	}
	return "", fmt.Errorf("regex op %v unsupported in RegLan translation", re.Op)
}

// LangQuery asks one solver whether some ASCII string satisfies the given membership formula (an SMT
// Bool term over the String variable s). Returns verdict and, for sat, the witness string.
func LangQuery(solver string, formula string, timeout time.Duration) (string, string, float64, error) {
	var cmd *exec.Cmd
	script := "(set-logic QF_S)\n(declare-const s String)\n(assert (str.in_re s (re.* (re.range \"\\u{0}\" \"\\u{7f}\"))))\n(assert " + formula + ")\n(check-sat)\n(get-value (s))\n"
	switch solver {
	case "z3":
		cmd = exec.Command("z3-new", "-in", "-smt2", fmt.Sprintf("-T:%d", int(timeout.Seconds())))
		script = strings.Replace(script, "(set-logic QF_S)\n", "", 1)
	case "cvc5":
		cmd = exec.Command("cvc5", "--lang=smt2", "--strings-exp", "--produce-models", fmt.Sprintf("--tlimit=%d", timeout.Milliseconds()))
	default:
		return "", "", 0, fmt.Errorf("unknown solver")
	}
	cmd.Stdin = strings.NewReader(script)
	t0 := time.Now()
	out, _ := cmd.CombinedOutput()
	secs := time.Since(t0).Seconds()
	sc := bufio.NewScanner(strings.NewReader(string(out)))
	verdict := ""
	rest := ""
	for sc.Scan() {
		line := strings.TrimSpace(sc.Text())
		if verdict == "" {
			switch line {
			case "sat", "unsat", "unknown", "timeout":
				verdict = line
				continue
			}
			if strings.HasPrefix(line, "(error") {
				return "unknown", "", secs, fmt.Errorf("solver error: %s", line)
			}
			continue
		}
		rest += line
	}
	if verdict == "" {
		return "unknown", "", secs, fmt.Errorf("no verdict: %s", truncate(string(out), 300))
	}
	wit := ""
	if verdict == "sat" {
		// ((s "...."))
		i := strings.Index(rest, `"`)
		j := strings.LastIndex(rest, `"`)
		if i >= 0 && j > i {
			wit = unescapeSMT(rest[i+1 : j])
		}
	}
	if verdict == "timeout" {
		verdict = "unknown"
	}
	return verdict, wit, secs, nil
}

func unescapeSMT(s string) string {
	var b strings.Builder
	for i := 0; i < len(s); i++ {
		if s[i] == '"' && i+1 < len(s) && s[i+1] == '"' {
			b.WriteByte('"')
			i++
			continue
		}
		if s[i] == '\\' && i+2 < len(s) && s[i+1] == 'u' && s[i+2] == '{' {
			j := strings.IndexByte(s[i:], '}')
			if j > 0 {
				var v int
				fmt.Sscanf(s[i+3:i+j], "%x", &v)
				b.WriteRune(rune(v))
				i += j
				continue
			}
		}
		if s[i] == '\\' && i+5 < len(s) && s[i+1] == 'u' {
			var v int
			if _, err := fmt.Sscanf(s[i+2:i+6], "%04x", &v); err == nil {
				b.WriteRune(rune(v))
				i += 5
				continue
			}
		}
		b.WriteByte(s[i])
	}
	return b.String()
}
