package eng

import (
	"bufio"
	"bytes"
	"crypto/sha1"
	"encoding/json"
	"fmt"
	"os"
	"os/exec"
	"path/filepath"
	"sort"
	"strings"
	"time"
)

// ReplayCase is one model to be run natively against the real build.
type ReplayCase struct {
	Harness  string                 `json:"harness"` // full SSA name
	Model    Model                  `json:"model"`
	Observed map[string]interface{} `json:"observed,omitempty"`
}

type ReplayResult struct {
	Idx      int               `json:"idx"`
	Failures []string          `json:"failures"`
	Observed map[string]string `json:"observed"`
	Panic    string            `json:"panic"`
	Reached  []string          `json:"reached"`
}

func splitHarness(full string) (pkgPath, fn string) {
	i := strings.LastIndex(full, ".")
	return full[:i], full[i+1:]
}

// NativeReplay runs the cases with `go test -overlay` in the tree under test and returns one result per case.
// keepDir != "" keeps the generated artefacts there (replay directory of a violation).
func NativeReplay(p *Program, cases []ReplayCase, keepDir string) ([]ReplayResult, error) {
	if len(cases) == 0 {
		return nil, nil
	}
	byPkg := map[string][]int{}
	for i, c := range cases {
		pkg, _ := splitHarness(c.Harness)
		byPkg[pkg] = append(byPkg[pkg], i)
	}
	results := make([]ReplayResult, len(cases))
	var pkgs []string
	for k := range byPkg {
		pkgs = append(pkgs, k)
	}
	sort.Strings(pkgs)
	for _, pkg := range pkgs {
		idxs := byPkg[pkg]
		dir := keepDir
		var err error
		if dir == "" {
			dir, err = os.MkdirTemp("", "gosym-replay-")
			if err != nil {
				return nil, err
			}
			defer os.RemoveAll(dir)
		} else {
			os.MkdirAll(dir, 0755)
		}
		rel := strings.TrimPrefix(pkg, RepoMod+"/")
		pkgName := ""
		if sp := p.SSAPkgs[pkg]; sp != nil {
			pkgName = sp.Pkg.Name()
		}
		// collect harness function names
		fnSet := map[string]bool{}
		type nativeCase struct {
			Idx     int    `json:"idx"`
			Harness string `json:"harness"`
			Model   Model  `json:"model"`
		}
		var ncs []nativeCase
		for _, i := range idxs {
			_, fn := splitHarness(cases[i].Harness)
			fnSet[fn] = true
			ncs = append(ncs, nativeCase{Idx: i, Harness: fn, Model: cases[i].Model})
		}
		var fns []string
		for f := range fnSet {
			fns = append(fns, f)
		}
		sort.Strings(fns)
		var tb strings.Builder
		fmt.Fprintf(&tb, "package %s\n\nimport (\n\t\"encoding/json\"\n\t\"fmt\"\n\t\"os\"\n\t\"strings\"\n\t\"testing\"\n\n\t\"%s\"\n)\n\n", pkgName, ndPkg)
		tb.WriteString("var zzReplayHarnesses = map[string]func(){\n")
		for _, f := range fns {
			fmt.Fprintf(&tb, "\t%q: %s,\n", f, f)
		}
		tb.WriteString("}\n\n")
		tb.WriteString(`func TestZZReplay(t *testing.T) {
	b, err := os.ReadFile(os.Getenv("ND_CASES"))
	if err != nil {
		t.Fatal(err)
	}
	var cases []struct {
		Idx     int                    ` + "`json:\"idx\"`" + `
		Harness string                 ` + "`json:\"harness\"`" + `
		Model   map[string]interface{} ` + "`json:\"model\"`" + `
	}
	dec := json.NewDecoder(strings.NewReader(string(b)))
	dec.UseNumber()
	if err := dec.Decode(&cases); err != nil {
		t.Fatal(err)
	}
	for _, c := range cases {
		nd.SetModel(c.Model)
		pan := ""
		func() {
			defer func() {
				if r := recover(); r != nil {
					pan = fmt.Sprint(r)
				}
			}()
			zzReplayHarnesses[c.Harness]()
		}()
		obs := map[string]string{}
		for k, v := range nd.Observed {
			obs[k] = fmt.Sprint(v)
		}
		out, _ := json.Marshal(map[string]interface{}{"idx": c.Idx, "failures": nd.Failures, "observed": obs, "panic": pan, "reached": nd.Reached})
		fmt.Println("ZZREPLAY " + string(out))
	}
}
`)
		testPath := filepath.Join(dir, "zz_replay_test.go")
		if err := os.WriteFile(testPath, []byte(tb.String()), 0644); err != nil {
			return nil, err
		}
		casesPath := filepath.Join(dir, "cases.json")
		cb, _ := json.MarshalIndent(ncs, "", " ")
		if err := os.WriteFile(casesPath, cb, 0644); err != nil {
			return nil, err
		}
		// overlay: harness files + test file
		repl := map[string]string{}
		for virt, real := range p.OverlayFiles {
			repl[virt] = real
		}
		repl[filepath.Join(p.RepoDir, rel, "zz_replay_test.go")] = testPath
		ob, _ := json.MarshalIndent(map[string]interface{}{"Replace": repl}, "", " ")
		ovPath := filepath.Join(dir, "overlay.json")
		if err := os.WriteFile(ovPath, ob, 0644); err != nil {
			return nil, err
		}
		binPath := filepath.Join(dir, "replay.test")
		runSh := fmt.Sprintf("#!/bin/sh\n# native replay of solver models against the real build (the test binary is compiled with the harness overlay, then run)\ncd %s && GOFLAGS=-mod=mod GOPROXY=off go test -c -vet=off -overlay %s -o %s ./%s && ND_CASES=%s %s -test.run 'TestZZReplay$' -test.v\n", p.RepoDir, ovPath, binPath, rel, casesPath, binPath)
		os.WriteFile(filepath.Join(dir, "run.sh"), []byte(runSh), 0755)
		var outb bytes.Buffer
		build := exec.Command("go", "test", "-c", "-vet=off", "-overlay", ovPath, "-o", binPath, "./"+rel)
		build.Dir = p.RepoDir
		build.Env = append(os.Environ(), "GOFLAGS=-mod=mod", "GOPROXY=off")
		build.Stdout = &outb
		build.Stderr = &outb
		if err := build.Run(); err != nil {
			return nil, fmt.Errorf("native replay: test binary does not build: %v\n%s", err, truncate(outb.String(), 2000))
		}
		cmd := exec.Command(binPath, "-test.run", "TestZZReplay$", "-test.v")
		cmd.Dir = dir
		cmd.Env = append(os.Environ(), "ND_CASES="+casesPath)
		cmd.Stdout = &outb
		cmd.Stderr = &outb
		done := make(chan error, 1)
		go func() { done <- cmd.Run() }()
		select {
		case <-done:
		case <-time.After(10 * time.Minute):
			cmd.Process.Kill()
			return nil, fmt.Errorf("native replay timed out")
		}
		os.Remove(binPath)
		seen := map[int]bool{}
		sc := bufio.NewScanner(&outb)
		sc.Buffer(make([]byte, 1<<20), 1<<26)
		var raw []string
		for sc.Scan() {
			line := sc.Text()
			raw = append(raw, line)
			if i := strings.Index(line, "ZZREPLAY "); i >= 0 {
				var r ReplayResult
				if err := json.Unmarshal([]byte(line[i+9:]), &r); err == nil {
					results[r.Idx] = r
					seen[r.Idx] = true
				}
			}
		}
		// a fatal stack overflow kills the whole test process: the first case without a result is the one that died that way
		if out := strings.Join(raw, "\n"); strings.Contains(out, "stack overflow") || strings.Contains(out, "goroutine stack exceeds") {
			first := true
			for _, i := range idxs {
				if seen[i] {
					continue
				}
				if first {
					results[i] = ReplayResult{Idx: i, Panic: "fatal error: stack overflow (the process died)"}
					first = false
				} else {
					results[i] = ReplayResult{Idx: i, Failures: []string{"not run: the replay process died of a stack overflow in an earlier case"}}
				}
				seen[i] = true
			}
		}
		for _, i := range idxs {
			if !seen[i] {
				tail := raw
				if len(tail) > 30 {
					tail = tail[len(tail)-30:]
				}
				return nil, fmt.Errorf("native replay produced no result for case %d of %s:\n%s", i, pkg, strings.Join(tail, "\n"))
			}
		}
	}
	return results, nil
}

// FormatObserved renders an engine-side observed value like fmt.Sprint renders the native one.
func FormatObserved(v interface{}) string {
	switch x := v.(type) {
	case []interface{}:
		parts := make([]string, len(x))
		for i, e := range x {
			parts[i] = FormatObserved(e)
		}
		return "[" + strings.Join(parts, " ") + "]"
	case nil:
		return "<nil>"
	case map[string]interface{}:
		// struct: {f1 f2 ...} in field order is not available; sort keys
		ks := make([]string, 0, len(x))
		for k := range x {
			ks = append(ks, k)
		}
		sort.Strings(ks)
		parts := make([]string, len(ks))
		for i, k := range ks {
			parts[i] = k + ":" + FormatObserved(x[k])
		}
		return "{" + strings.Join(parts, " ") + "}"
	}
	return fmt.Sprint(v)
}

func ModelHash(v interface{}) string {
	b, _ := json.Marshal(v)
	h := sha1.Sum(b)
	return fmt.Sprintf("%x", h[:6])
}
