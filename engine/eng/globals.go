package eng

import (
	"reflect"
	"strings"

	"golang.org/x/tools/go/ssa"

	"verif/gosym/sym"
)

// per-worker template of initialised package-level variables
type globalTemplate struct {
	cells map[*ssa.Global]*Cell
	seq   int
	mseq  int
}

func (in *Interp) initGlobals() {
	if in.tmpl == nil {
		in.buildTemplate()
	}
	// deep clone the template
	cl := &cloner{cells: map[*Cell]*Cell{}, maps: map[*MapV]*MapV{}}
	in.globals = make(map[*ssa.Global]*Cell, len(in.tmpl.cells))
	for g, c := range in.tmpl.cells {
		in.globals[g] = cl.cell(c)
	}
	in.cellSeq = in.tmpl.seq
	in.mapSeq = in.tmpl.mseq
}

func (in *Interp) buildTemplate() {
	fn := in.P.Funcs[in.Ex.Harness]
	in.inInit = true
	defer func() { in.inInit = false }()
	in.globals = map[*ssa.Global]*Cell{}
	if fn.Pkg != nil {
		if initFn := fn.Pkg.Func("init"); initFn != nil {
			in.callFunction(initFn, nil, nil)
		}
	}
	in.tmpl = &globalTemplate{cells: in.globals, seq: in.cellSeq, mseq: in.mapSeq}
	in.globals = nil
}

func isRepoPkg(fn *ssa.Function) bool {
	return fn.Pkg != nil && strings.HasPrefix(fn.Pkg.Pkg.Path(), RepoMod)
}

type cloner struct {
	cells map[*Cell]*Cell
	maps  map[*MapV]*MapV
}

func (c *cloner) cell(x *Cell) *Cell {
	if x == nil {
		return nil
	}
	if n, ok := c.cells[x]; ok {
		return n
	}
	n := &Cell{id: x.id, tag: x.tag}
	c.cells[x] = n
	n.val = c.val(x.val)
	return n
}

func (c *cloner) val(v Value) Value {
	switch x := v.(type) {
	case *sym.Term, *Str, *HostV, *FloatV, nil, poison, *BytesV:
		return v
	case *Ptr:
		if x.cell == nil {
			return x
		}
		return &Ptr{cell: c.cell(x.cell), path: x.path}
	case *StructV:
		n := &StructV{typ: x.typ, fields: make([]Value, len(x.fields))}
		for i, f := range x.fields {
			n.fields[i] = c.val(f)
		}
		return n
	case *ArrayV:
		n := &ArrayV{elems: make([]Value, len(x.elems))}
		for i, f := range x.elems {
			n.elems[i] = c.val(f)
		}
		return n
	case *SliceV:
		if x.arr == nil {
			return x
		}
		return &SliceV{arr: c.cell(x.arr), off: x.off, len: x.len, cap: x.cap}
	case *MapV:
		if x == nil || x.isNil {
			return x
		}
		if n, ok := c.maps[x]; ok {
			return n
		}
		n := &MapV{id: x.id, conc: make(map[string]int, len(x.conc))}
		c.maps[x] = n
		for k, i := range x.conc {
			n.conc[k] = i
		}
		n.entries = make([]mapEntry, len(x.entries))
		for i, e := range x.entries {
			n.entries[i] = mapEntry{key: c.val(e.key), val: c.val(e.val)}
		}
		return n
	case *Closure:
		if x == nil || len(x.env) == 0 {
			return x
		}
		n := &Closure{fn: x.fn, native: x.native, name: x.name, env: make([]Value, len(x.env))}
		for i, e := range x.env {
			n.env[i] = c.val(e)
		}
		return n
	case *IfaceV:
		if x.typ == nil {
			return x
		}
		return &IfaceV{typ: x.typ, val: c.val(x.val)}
	case TupleV:
		n := make(TupleV, len(x))
		for i, e := range x {
			n[i] = c.val(e)
		}
		return n
	case *rangeIter:
		return x
	}
	panic(inconclusive{"clone: unsupported value " + reflect.TypeOf(v).String()})
}
