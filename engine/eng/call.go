package eng

import (
	"go/types"
	"strings"

	"golang.org/x/tools/go/ssa"

	"verif/gosym/sym"
)

type callTarget struct {
	fn       *ssa.Function // static or resolved
	closure  *Closure
	builtin  string
	hostRecv *HostV
	method   *types.Func // invoke-mode method
}

func (in *Interp) call(fr *frame, c *ssa.CallCommon, site ssa.Value) Value {
	fnv, args := in.prepareCall(fr, c)
	return in.invoke(fr, fnv, args, c, site)
}

// prepareCall evaluates the callee and arguments.
func (in *Interp) prepareCall(fr *frame, c *ssa.CallCommon) (*callTarget, []Value) {
	args := make([]Value, 0, len(c.Args)+1)
	tgt := &callTarget{}
	if c.IsInvoke() {
		recv := in.get(fr, c.Value)
		iv, ok := recv.(*IfaceV)
		if !ok {
			in.fail("invoke on %T", recv)
		}
		if iv.typ == nil {
			panic(&goPanic{msg: "runtime error: invalid memory address or nil pointer dereference (method call on nil interface)", pos: c.Pos()})
		}
		tgt.method = c.Method
		if h, isHost := iv.val.(*HostV); isHost {
			tgt.hostRecv = h
		} else {
			fn := in.P.Prog.LookupMethod(iv.typ, c.Method.Pkg(), c.Method.Name())
			if fn == nil {
				in.fail("no method %s on dynamic type %s", c.Method.Name(), iv.typ)
			}
			tgt.fn = fn
			args = append(args, iv.val)
		}
	} else {
		switch f := c.Value.(type) {
		case *ssa.Function:
			tgt.fn = f
		case *ssa.Builtin:
			tgt.builtin = f.Name()
		default:
			v := in.get(fr, c.Value)
			cl, ok := v.(*Closure)
			if !ok {
				in.fail("call of %T", v)
			}
			if cl == nil {
				panic(&goPanic{msg: "runtime error: invalid memory address or nil pointer dereference (nil func call)", pos: c.Pos()})
			}
			tgt.closure = cl
			tgt.fn = cl.fn
		}
	}
	for _, a := range c.Args {
		args = append(args, in.get(fr, a))
	}
	return tgt, args
}

func (in *Interp) invoke(fr *frame, tgt *callTarget, args []Value, c *ssa.CallCommon, site ssa.Value) Value {
	if tgt.builtin != "" {
		return in.callBuiltin(fr, tgt.builtin, args, c)
	}
	if tgt.hostRecv != nil {
		return in.hostMethodCall(tgt.hostRecv, tgt.method.Name(), args, c.Signature().Results())
	}
	if tgt.closure != nil && tgt.closure.native != nil {
		return tgt.closure.native(in, args)
	}
	fn := tgt.fn
	if fn == nil {
		in.fail("call with no target")
	}
	var env []Value
	if tgt.closure != nil {
		env = tgt.closure.env
	}
	return in.callFn(fn, args, env)
}

// callFn dispatches a resolved function: intrinsic, host, or interpretation.
func (in *Interp) callFn(fn *ssa.Function, args []Value, env []Value) Value {
	name := fn.String()
	if fn.Name() == "init" && fn.Synthetic != "" && !isRepoPkg(fn) {
		return nil // package initialisers outside the repository are not executed (their globals are zero; see LazyGlobals)
	}
	if fn.Origin() != nil {
		// instantiated generic: intrinsics are keyed by the origin's name
		if h, ok := intrinsics[fn.Origin().String()]; ok {
			return h(in, fn, args)
		}
	}
	if h, ok := intrinsics[name]; ok {
		return h(in, fn, args)
	}
	if r, ok := in.Ex.Redirects[name]; ok {
		rf := in.P.Funcs[r]
		if rf == nil {
			in.fail("redirect target %s not found", r)
		}
		in.stubs["summary: "+shortName(name)+" replaced by "+shortName(r)+" (lemma-checked)"] = true
		return in.callFunction(rf, args, nil)
	}
	if stub, ok := in.Ex.Stubs[name]; ok {
		in.stubs[name] = true
		return stub(in, fn, args)
	}
	// host receiver / host-only packages
	if len(args) > 0 && fn.Signature.Recv() != nil {
		if h, ok := args[0].(*HostV); ok {
			return in.hostMethodCall(h, fn.Name(), args[1:], fn.Signature.Results())
		}
		if p, ok := args[0].(*Ptr); ok && p.host != nil {
			return in.hostMethodCall(p.host, fn.Name(), args[1:], fn.Signature.Results())
		}
	}
	if hf, ok := hostFuncs[name]; ok {
		return in.hostFuncCall(name, hf, args, fn.Signature.Results())
	}
	if fn.Blocks == nil {
		in.fail("external function without model: %s", name)
	}
	if fn.Pkg != nil && !in.Ex.mayInterpret(fn) {
		in.fail("callee outside the interpret/intrinsic/host/stub lists reached: %s", name)
	}
	return in.callFunction(fn, args, env)
}

func (in *Interp) callBuiltin(fr *frame, name string, args []Value, c *ssa.CallCommon) Value {
	st := in.St
	switch name {
	case "len":
		switch x := args[0].(type) {
		case *Str:
			return in.strLen(x)
		case *SliceV:
			return st.Int(int64(x.len))
		case *MapV:
			return st.Int(int64(len(x.entries)))
		case *BytesV:
			return in.strLen(x.s)
		case *ArrayV:
			return st.Int(int64(len(x.elems)))
		case *Ptr:
			t := c.Args[0].Type().Underlying().(*types.Pointer).Elem().Underlying().(*types.Array)
			return st.Int(t.Len())
		case *HostV:
			return st.Int(int64(x.rv.Len()))
		}
	case "cap":
		switch x := args[0].(type) {
		case *SliceV:
			return st.Int(int64(x.cap))
		case *BytesV:
			return in.strLen(x.s)
		}
	case "append":
		return in.appendOp(args[0], args[1], c.Args[0].Type())
	case "copy":
		dst, ok1 := args[0].(*SliceV)
		if ok1 {
			switch src := args[1].(type) {
			case *SliceV:
				n := dst.len
				if src.len < n {
					n = src.len
				}
				tmp := make([]Value, n)
				for i := 0; i < n; i++ {
					tmp[i] = in.load(&Ptr{cell: src.arr, path: []int{src.off + i}})
				}
				for i := 0; i < n; i++ {
					in.store(&Ptr{cell: dst.arr, path: []int{dst.off + i}}, tmp[i])
				}
				return st.Int(int64(n))
			case *Str:
				if src.kind == sConc {
					n := dst.len
					if len(src.conc) < n {
						n = len(src.conc)
					}
					for i := 0; i < n; i++ {
						in.store(&Ptr{cell: dst.arr, path: []int{dst.off + i}}, st.Int(int64(src.conc[i])))
					}
					return st.Int(int64(n))
				}
			}
		}
		in.fail("copy on %T,%T", args[0], args[1])
	case "delete":
		in.mapDelete(args[0].(*MapV), args[1])
		return nil
	case "recover":
		// find the nearest panicking frame: ssa calls recover in the deferred closure; the panicking frame is its caller
		if gp := in.currentPanic(); gp != nil {
			v := gp.val
			if v == nil {
				v = &IfaceV{typ: types.Typ[types.String], val: concStr(gp.msg)}
			}
			in.clearPanic()
			return v
		}
		return &IfaceV{}
	case "print", "println":
		return nil
	case "min", "max":
		r := args[0].(*sym.Term)
		for _, a := range args[1:] {
			t := a.(*sym.Term)
			if name == "min" {
				r = st.Ite(st.Lt(t, r), t, r)
			} else {
				r = st.Ite(st.Lt(r, t), t, r)
			}
		}
		return r
	case "ssa:wrapnilchk":
		p := args[0]
		if pp, ok := p.(*Ptr); ok && pp.IsNil() {
			panic(&goPanic{msg: "value method called using nil pointer", pos: c.Pos()})
		}
		return p
	}
	in.fail("unsupported builtin %s on %T", name, args[0])
	return nil
}

func (in *Interp) currentPanic() *goPanic {
	for i := len(in.panicFrames) - 1; i >= 0; i-- {
		if in.panicFrames[i].panicking != nil {
			return in.panicFrames[i].panicking
		}
	}
	return nil
}

func (in *Interp) clearPanic() {
	for i := len(in.panicFrames) - 1; i >= 0; i-- {
		if in.panicFrames[i].panicking != nil {
			in.panicFrames[i].panicking = nil
			return
		}
	}
}

func (in *Interp) appendOp(a, b Value, sliceT types.Type) Value {
	// append([]byte, string...) and BytesV cases
	if bv, ok := a.(*BytesV); ok {
		switch y := b.(type) {
		case *Str:
			return &BytesV{s: in.strConcat(bv.s, y)}
		case *BytesV:
			return &BytesV{s: in.strConcat(bv.s, y.s)}
		case *SliceV:
			if y.len == 0 {
				return bv
			}
			elems := make([]*sym.Term, y.len)
			for i := range elems {
				elems[i] = in.load(&Ptr{cell: y.arr, path: []int{y.off + i}}).(*sym.Term)
			}
			return &BytesV{s: in.strConcat(bv.s, in.strFromBytes(elems))}
		}
	}
	s, ok := a.(*SliceV)
	if !ok {
		in.fail("append to %T", a)
	}
	var add []Value
	switch y := b.(type) {
	case *SliceV:
		for i := 0; i < y.len; i++ {
			add = append(add, in.load(&Ptr{cell: y.arr, path: []int{y.off + i}}))
		}
	case *Str:
		if et, ok := sliceT.Underlying().(*types.Slice); ok {
			if bt, ok := et.Elem().Underlying().(*types.Basic); ok && bt.Kind() == types.Uint8 {
				// []byte append of string: switch to a bytes view
				cur := make([]*sym.Term, s.len)
				for i := range cur {
					cur[i] = in.load(&Ptr{cell: s.arr, path: []int{s.off + i}}).(*sym.Term)
				}
				return &BytesV{s: in.strConcat(in.strFromBytes(cur), y)}
			}
		}
		in.fail("append string to non-byte slice")
	case *BytesV:
		cur := make([]*sym.Term, s.len)
		for i := range cur {
			cur[i] = in.load(&Ptr{cell: s.arr, path: []int{s.off + i}}).(*sym.Term)
		}
		return &BytesV{s: in.strConcat(in.strFromBytes(cur), y.s)}
	default:
		in.fail("append of %T", b)
	}
	if len(add) == 0 {
		return s
	}
	if s.arr != nil && s.len+len(add) <= s.cap {
		for i, v := range add {
			in.store(&Ptr{cell: s.arr, path: []int{s.off + s.len + i}}, v)
		}
		return &SliceV{arr: s.arr, off: s.off, len: s.len + len(add), cap: s.cap}
	}
	// grow (Go's growth factor is unspecified; use doubling: aliasing after append is implementation-defined in Go too)
	ncap := s.cap * 2
	if ncap < s.len+len(add) {
		ncap = s.len + len(add)
	}
	et := sliceT.Underlying().(*types.Slice).Elem()
	arr := &ArrayV{elems: make([]Value, ncap)}
	for i := 0; i < s.len; i++ {
		arr.elems[i] = in.load(&Ptr{cell: s.arr, path: []int{s.off + i}})
	}
	for i, v := range add {
		arr.elems[s.len+i] = deepCopy(v)
	}
	for i := s.len + len(add); i < ncap; i++ {
		arr.elems[i] = in.zero(et)
	}
	return &SliceV{arr: in.newCell(arr, ""), off: 0, len: s.len + len(add), cap: ncap}
}

// sliceElems returns the element values of a slice value.
func (in *Interp) sliceElems(v Value) []Value {
	s, ok := v.(*SliceV)
	if !ok {
		in.fail("expected slice, got %T", v)
	}
	out := make([]Value, s.len)
	for i := range out {
		out[i] = in.load(&Ptr{cell: s.arr, path: []int{s.off + i}})
	}
	return out
}

func (in *Interp) mkSlice(elems []Value) *SliceV {
	arr := &ArrayV{elems: make([]Value, len(elems))}
	copy(arr.elems, elems)
	return &SliceV{arr: in.newCell(arr, ""), len: len(elems), cap: len(elems)}
}

func shortName(full string) string {
	if i := strings.LastIndex(full, "/"); i >= 0 {
		return full[i+1:]
	}
	return full
}
