package eng

import (
	"fmt"
	"os"
	"runtime/debug"
	"sort"
	"strings"
	"sync"
	"time"

	"golang.org/x/tools/go/ssa"

	"verif/gosym/sym"
)

type InputKind int

const (
	InInt InputKind = iota
	InBool
	InStr
	InBuf
	InAtom
	InEnum
)

type Input struct {
	Name string
	Kind InputKind
	Max  int
	T    *sym.Term // int/bool/atom/enum selector, or length for strings
	Arr  *sym.Term // array var for strings
	Alts []string
}

type Observation struct {
	Name string
	Val  Value
}

// Model: concrete values of the inputs of one path.
type Model map[string]interface{}

type Violation struct {
	Harness  string                 `json:"harness"`
	Kind     string                 `json:"kind"` // assert | panic
	Msg      string                 `json:"msg"`
	Pos      string                 `json:"pos"`
	Known    string                 `json:"known_key,omitempty"`
	Model    Model                  `json:"model"`
	Trace    []int                  `json:"trace"`
	Observed map[string]interface{} `json:"observed,omitempty"`
}

type Sample struct {
	Model    Model                  `json:"model"`
	Observed map[string]interface{} `json:"observed,omitempty"`
	Asserts  int                    `json:"asserts_reached"`
}

type Stubs map[string]func(in *Interp, fn *ssa.Function, args []Value) Value

// Explorer runs one harness function to exhaustion over all feasible paths.
type Explorer struct {
	P          *Program
	Harness    string // full function name
	Stubs      Stubs
	Known      map[string]bool // known-finding keys that are active
	Workers    int
	SolverKind string
	TimeoutMS  int
	// WallBudget bounds one harness run in wall-clock time (0 = none): when it is used up no further path is started,
	// running paths end at their next choice point, and the run is INCONCLUSIVE (never "held")
	WallBudget time.Duration
	deadline   time.Time

	MaxDecisions                     int
	MaxBlockVisits                   int
	MaxSteps                         int
	MaxSplit                         int
	MapOrders                        bool
	MapOrderMax                      int
	SampleEvery                      int
	MaxViolations                    int
	CrossCheck                       bool // re-discharge final queries on cvc5
	HostStringHook                   func(in *Interp, s string) Value
	InterpretPkgs                    []string // extra package path prefixes allowed for interpretation
	EnvMax                           int
	MaxSamples                       int
	samplesPending                   int
	Skeletons                        map[string]string
	FallbackQueries, FallbackDecided int
	TightenAbove                     int
	Forks                            map[string]int
	Redirects                        map[string]string // callee full name -> replacement (summary) full name
	NoIfConv                         bool
	IfConv                           int
	Seed                             int
	ByteLo, ByteHi                   int64
	BufMaxLen                        int64
	Regexes                          map[string]int

	mu     sync.Mutex
	stack  [][]int
	active int
	cond   *sync.Cond

	// results
	Paths                           int
	PathsAssumeEnd                  int
	AssertsReached                  map[string]int
	AssertsChecked                  int
	Violations                      []Violation
	KnownHits                       map[string][]Violation
	Inconclusive                    []string
	Samples                         []Sample
	FuncsEncoded                    map[string]int
	HostCalls                       map[string]int
	StubsUsed                       map[string]bool
	LazyGlobals                     map[string]bool
	Queries, QSat, QUnsat, QUnknown int
	SolverTime                      time.Duration
	Wall                            time.Duration
	Decisions                       int
	MaxDepth                        int
	OrderVars                       int
	UnknownFeas                     int
	ObligChecked                    int
	GlobalWrites                    map[string]int
	CrossChecked                    int
	CrossDisagree                   int
	initGlobals                     map[*ssa.Global]*Cell
	initCells                       int
	Steps                           int64
}

func NewExplorer(p *Program, harness string) *Explorer {
	ex := &Explorer{P: p, Harness: harness, Stubs: Stubs{}, Known: map[string]bool{}, Workers: 8, SolverKind: "z3", TimeoutMS: 30000,
		MaxDecisions: 400, MaxBlockVisits: 100000, MaxSteps: 30000000, MaxSplit: 5, MapOrderMax: 3, EnvMax: 12, MaxSamples: 24, TightenAbove: 12, ByteLo: 0, ByteHi: 127, BufMaxLen: 1<<31 - 1, SampleEvery: 1, MaxViolations: 8,
		AssertsReached: map[string]int{}, KnownHits: map[string][]Violation{}, FuncsEncoded: map[string]int{}, HostCalls: map[string]int{},
		StubsUsed: map[string]bool{}, LazyGlobals: map[string]bool{}, GlobalWrites: map[string]int{}}
	ex.cond = sync.NewCond(&ex.mu)
	return ex
}

func (ex *Explorer) push(t []int) {
	ex.mu.Lock()
	ex.stack = append(ex.stack, t)
	ex.mu.Unlock()
	ex.cond.Signal()
}

func (ex *Explorer) noteLazyGlobal(g *ssa.Global) {
	ex.mu.Lock()
	ex.LazyGlobals[g.String()] = true
	ex.mu.Unlock()
}
func (ex *Explorer) noteHostCall(n string) {
	ex.mu.Lock()
	ex.HostCalls[n]++
	ex.mu.Unlock()
}
func (ex *Explorer) noteFork(what string) {
	ex.mu.Lock()
	if ex.Forks == nil {
		ex.Forks = map[string]int{}
	}
	ex.Forks[what]++
	ex.mu.Unlock()
}
func (ex *Explorer) noteIfConv() {
	ex.mu.Lock()
	ex.IfConv++
	ex.mu.Unlock()
}
func (ex *Explorer) noteOrderVar() {
	ex.mu.Lock()
	ex.OrderVars++
	ex.mu.Unlock()
}

var interpretPrefixes = []string{
	RepoMod, "go/ast", "slices", "sort", "flag", "strconv", "errors", "iter", "maps", "cmp", "unicode/utf8", "unicode", "strings", "bytes", "go/token", "fmt", "sync", "sync/atomic", "internal/", "math/bits", "math", "golang.org/x/tools/go/analysis", "go/types", "reflect", "os", "io", "bufio",
}

// mayInterpret: SSA bodies of these packages may be executed when no intrinsic/host/stub applies.
// (Packages with host-object receivers never get here: host receivers are dispatched natively.)
func (ex *Explorer) mayInterpret(fn *ssa.Function) bool {
	if fn.Pkg == nil {
		return true
	}
	path := fn.Pkg.Pkg.Path()
	for _, p := range interpretPrefixes {
		if path == p || strings.HasPrefix(path, p+"/") || (strings.HasSuffix(p, "/") && strings.HasPrefix(path, p)) {
			return true
		}
	}
	// any other standard-library package (no dot in the first path element) may be interpreted as well, except those
	// that touch the operating system or the runtime: a refactoring that starts using e.g. path.Base must not turn a
	// check inconclusive
	first := path
	if i := strings.Index(path, "/"); i >= 0 {
		first = path[:i]
	}
	if !strings.Contains(first, ".") {
		switch first {
		case "os", "net", "syscall", "runtime", "unsafe", "plugin", "log", "testing", "time", "crypto", "database", "debug", "embed", "encoding", "hash", "html", "image", "mime", "archive", "compress", "context", "expvar", "index", "text", "regexp":
			return false
		}
		return true
	}
	for _, p := range ex.InterpretPkgs {
		if strings.HasPrefix(path, p) {
			return true
		}
	}
	return false
}

// Run explores all paths.
func (ex *Explorer) Run() error {
	t0 := time.Now()
	if ex.WallBudget > 0 {
		ex.deadline = t0.Add(ex.WallBudget)
	}
	fn := ex.P.Funcs[ex.Harness]
	if fn == nil {
		return fmt.Errorf("harness %s not found", ex.Harness)
	}
	ex.stack = [][]int{{}}
	var wg sync.WaitGroup
	errs := make(chan error, ex.Workers)
	for w := 0; w < ex.Workers; w++ {
		wg.Add(1)
		go func(w int) {
			defer wg.Done()
			if err := ex.worker(fn); err != nil {
				errs <- err
				ex.mu.Lock()
				ex.Inconclusive = append(ex.Inconclusive, "worker: "+err.Error())
				ex.stack = nil
				ex.mu.Unlock()
				ex.cond.Broadcast()
			}
		}(w)
	}
	wg.Wait()
	ex.Wall = time.Since(t0)
	select {
	case e := <-errs:
		return e
	default:
	}
	return nil
}

// OverBudget reports whether the run's wall-clock budget is used up (checked by the interpreter at choice points).
func (ex *Explorer) OverBudget() bool {
	return !ex.deadline.IsZero() && time.Now().After(ex.deadline)
}

func (ex *Explorer) pop() ([]int, bool) {
	ex.mu.Lock()
	defer ex.mu.Unlock()
	for {
		if !ex.deadline.IsZero() && time.Now().After(ex.deadline) && len(ex.stack) > 0 {
			ex.Inconclusive = append(ex.Inconclusive, fmt.Sprintf("wall-clock budget of %s used up with %d path prefixes unexplored", ex.WallBudget, len(ex.stack)))
			ex.stack = nil
		}
		if len(ex.stack) > 0 {
			t := ex.stack[len(ex.stack)-1]
			ex.stack = ex.stack[:len(ex.stack)-1]
			ex.active++
			return t, true
		}
		if ex.active == 0 {
			ex.cond.Broadcast()
			return nil, false
		}
		ex.cond.Wait()
	}
}

func (ex *Explorer) done() {
	ex.mu.Lock()
	ex.active--
	idle := ex.active == 0 && len(ex.stack) == 0
	ex.mu.Unlock()
	if idle {
		ex.cond.Broadcast()
	}
}

func (ex *Explorer) worker(fn *ssa.Function) error {
	st := sym.NewStore()
	sol, err := sym.NewSolver(ex.SolverKind, st, ex.TimeoutMS)
	if err != nil {
		return err
	}
	defer sol.Close()
	var cross *sym.Solver
	if ex.CrossCheck {
		cross, err = sym.NewSolver("cvc5", st, ex.TimeoutMS)
		if err != nil {
			return err
		}
		defer cross.Close()
	}
	in := &Interp{P: ex.P, Ex: ex, St: st, Sol: sol, cross: cross}
	for {
		t, ok := ex.pop()
		if !ok {
			break
		}
		in.runPath(fn, t)
		ex.done()
		ex.mu.Lock()
		tooMany := len(ex.Violations) >= ex.MaxViolations || len(ex.Inconclusive) >= 20
		if tooMany {
			ex.stack = nil
		}
		ex.mu.Unlock()
	}
	if in.fallback != nil {
		in.fallback.Close()
	}
	ex.mu.Lock()
	ex.Queries += sol.Queries
	ex.QSat += sol.Sat
	ex.QUnsat += sol.Unsat
	ex.QUnknown += sol.Unknown
	ex.SolverTime += sol.Time
	if cross != nil {
		ex.SolverTime += cross.Time
	}
	ex.mu.Unlock()
	return nil
}

func (in *Interp) beginPath(trace []int) {
	in.trace = trace
	in.tpos = 0
	in.taken = in.taken[:0]
	in.pc = in.pc[:0]
	in.globals = map[*ssa.Global]*Cell{}
	in.cellSeq = 0
	in.mapSeq = 0
	in.steps = 0
	in.depthReported = false
	in.obligs = nil
	in.obligPos = nil
	in.inputs = nil
	in.inputIdx = map[string]*Input{}
	in.observed = nil
	in.knownKey = ""
	in.unknownFeas = 0
	in.fresh = 0
	in.depth = 0
	in.builders = map[*Cell]*Str{}
	in.onces = map[string]bool{}
	in.funcsSeen = map[*ssa.Function]bool{}
	in.asserts = 0
	in.stubs = map[string]bool{}
	in.env = map[string]interface{}{}
	in.globalWrites = nil
	in.inOnce = 0
	in.panicFrames = nil
	in.astBack = nil
	in.astFwd = nil
	in.l1 = nil
	in.syncMaps = nil
	in.syncPools = nil
	in.posOverride = nil
	in.reached = nil
	in.byteAssumed = map[int]bool{}
	in.Sol.ClearErr()
	in.Sol.Push()
}

func (in *Interp) runPath(fn *ssa.Function, trace []int) {
	ex := in.Ex
	in.beginPath(trace)
	var endKind string
	var endMsg string
	func() {
		defer func() {
			if r := recover(); r != nil {
				switch e := r.(type) {
				case pathEnd:
					endKind, endMsg = "end", e.reason
				case inconclusive:
					endKind, endMsg = "inconclusive", e.reason
				case *goPanic:
					endKind, endMsg = "panic", e.msg
					in.reportPanic(e)
				default:
					endKind = "inconclusive"
					endMsg = fmt.Sprintf("engine panic: %v\n%s", r, truncate(string(debug.Stack()), 3000))
				}
			}
		}()
		in.initGlobals()
		in.callFunction(fn, nil, nil)
		endKind = "ok"
	}()
	// path-end checks: arithmetic obligations
	if endKind == "ok" || endKind == "panic" {
		if len(in.obligs) > 0 {
			neg := in.St.Not(in.St.And(in.obligs...))
			r := in.Sol.CheckWith(neg)
			ex.mu.Lock()
			ex.ObligChecked += len(in.obligs)
			ex.mu.Unlock()
			if r != sym.RUnsat {
				which := "?"
				if r == sym.RSat {
					for i, o := range in.obligs {
						if in.Sol.CheckWith(in.St.Not(o)) != sym.RUnsat {
							which = in.obligPos[i]
							break
						}
					}
				}
				endKind, endMsg = "inconclusive", fmt.Sprintf("no-wrap obligation not provable (%s): %s", r, which)
			}
		}
	}
	var sample *Sample
	ex.mu.Lock()
	wantSample := len(ex.Samples)+ex.samplesPending < ex.MaxSamples && (ex.Paths%ex.SampleEvery == 0)
	if wantSample {
		ex.samplesPending++
	}
	ex.mu.Unlock()
	if wantSample {
		defer func() { ex.mu.Lock(); ex.samplesPending--; ex.mu.Unlock() }()
	}
	if endKind == "ok" && in.asserts > 0 && wantSample {
		// draw a model of this path as a sample / selftest vector
		if in.Sol.Check() == sym.RSat {
			if m, obs, err := in.extractModel(); err == nil {
				sample = &Sample{Model: m, Observed: obs, Asserts: in.asserts}
			}
		}
	}
	in.Sol.PopAll()
	ex.mu.Lock()
	defer ex.mu.Unlock()
	ex.Paths++
	if os.Getenv("GOSYM_PROGRESS") != "" && ex.Paths%50 == 0 {
		fmt.Fprintf(os.Stderr, "progress: paths=%d queue=%d last_depth=%d last_end=%s\n", ex.Paths, len(ex.stack), len(in.taken), endKind)
	}
	ex.Steps += int64(in.steps)
	ex.Decisions += len(in.taken)
	if len(in.taken) > ex.MaxDepth {
		ex.MaxDepth = len(in.taken)
	}
	ex.UnknownFeas += in.unknownFeas
	for f := range in.funcsSeen {
		n := 0
		for _, b := range f.Blocks {
			n += len(b.Instrs)
		}
		ex.FuncsEncoded[f.String()] = n
	}
	for s := range in.stubs {
		ex.StubsUsed[s] = true
	}
	for _, g := range in.globalWrites {
		ex.GlobalWrites[g]++
	}
	for _, r := range in.reached {
		ex.AssertsReached[r]++
	}
	switch endKind {
	case "end":
		ex.PathsAssumeEnd++
	case "inconclusive":
		ex.Inconclusive = append(ex.Inconclusive, fmt.Sprintf("%s [trace %v]", endMsg, in.taken))
	}
	if sample != nil && len(ex.Samples) < ex.MaxSamples {
		ex.Samples = append(ex.Samples, *sample)
	}
	if in.unknownFeas > 0 && endKind == "ok" {
		// feasibility unknowns keep paths (sound), but record
	}
}

func truncate(s string, n int) string {
	if len(s) > n {
		return s[:n]
	}
	return s
}

func (in *Interp) reportPanic(e *goPanic) {
	// a Go panic on a feasible path is a violation of the implicit no-panic assertion unless the harness expects it
	if in.Ex.Stubs["__allow_panic__"] != nil {
		return
	}
	v := Violation{Harness: in.Ex.Harness, Kind: "panic", Msg: e.msg, Pos: in.posStr(e.pos, nil), Known: in.knownKey, Trace: append([]int(nil), in.taken...)}
	if in.Sol.Check() == sym.RSat {
		if m, obs, err := in.extractModel(); err == nil {
			v.Model = m
			v.Observed = obs
		}
	}
	in.Ex.addViolation(v)
}

func (ex *Explorer) addViolation(v Violation) {
	ex.mu.Lock()
	defer ex.mu.Unlock()
	if v.Known != "" && ex.Known[v.Known] {
		ex.KnownHits[v.Known] = append(ex.KnownHits[v.Known], v)
		return
	}
	ex.Violations = append(ex.Violations, v)
}

// ---------- models ----------

// extractModel returns concrete input values of one model of the current assertions, and the
// observed values under the same model (inputs are pinned before anything else is evaluated).
func (in *Interp) extractModel() (Model, map[string]interface{}, error) {
	st := in.St
	m := Model{}
	var ts []*sym.Term
	for _, inp := range in.inputs {
		ts = append(ts, inp.T)
	}
	vals, err := in.Sol.Values(ts)
	if err != nil {
		return nil, nil, err
	}
	in.Sol.Push()
	defer in.Sol.Pop()
	var bts []*sym.Term
	type span struct{ lo, hi int }
	spans := map[string]span{}
	for i, inp := range in.inputs {
		v := vals[i]
		in.Sol.Assert(st.Eq(inp.T, func() *sym.Term {
			if inp.T.Sort == sym.SBool {
				return st.Bool(v != 0)
			}
			return st.Int(v)
		}()))
		switch inp.Kind {
		case InInt:
			m[inp.Name] = v
		case InBool:
			m[inp.Name] = v != 0
		case InAtom:
			if s, ok := atomString(v); ok {
				m[inp.Name] = s
			} else {
				m[inp.Name] = fmt.Sprintf("atom%d", v)
			}
		case InEnum:
			if v < 0 || v >= int64(len(inp.Alts)) {
				v = int64(len(inp.Alts) - 1)
			}
			m[inp.Name] = inp.Alts[v]
		case InStr, InBuf:
			n := v
			if n < 0 {
				n = 0
			}
			if n > 1<<16 {
				return nil, nil, fmt.Errorf("model string %s too long (%d) to materialise", inp.Name, n)
			}
			lo := len(bts)
			for j := int64(0); j < n; j++ {
				bts = append(bts, st.Select(inp.Arr, st.Int(j)))
			}
			spans[inp.Name] = span{lo, len(bts)}
		}
	}
	if len(bts) > 0 {
		bv, err := in.Sol.Values(bts)
		if err != nil {
			return nil, nil, err
		}
		var pins []*sym.Term
		for name, sp := range spans {
			b := make([]byte, sp.hi-sp.lo)
			for j := range b {
				x := bv[sp.lo+j]
				if x < 0 || x > 255 {
					x = 'x' // never constrained on this path
				}
				b[j] = byte(x)
				pins = append(pins, st.Eq(bts[sp.lo+j], st.Int(x)))
			}
			m[name] = string(b)
		}
		in.Sol.Assert(st.And(pins...))
	}
	for name := range spans {
		_ = name
	}
	for _, inp := range in.inputs {
		if (inp.Kind == InStr || inp.Kind == InBuf) && m[inp.Name] == nil {
			m[inp.Name] = ""
		}
	}
	return m, in.evalObserved(), nil
}

func (in *Interp) evalObserved() map[string]interface{} {
	if len(in.observed) == 0 {
		return nil
	}
	out := map[string]interface{}{}
	for _, o := range in.observed {
		out[o.Name] = in.evalValue(o.Val)
	}
	return out
}

// evalValue evaluates a (possibly symbolic) value under the current model into plain Go data.
func (in *Interp) evalValue(v Value) interface{} {
	switch x := v.(type) {
	case *sym.Term:
		if x.IsConst() {
			if x.Sort == sym.SBool {
				return x.I != 0
			}
			return x.I
		}
		vals, err := in.Sol.Values([]*sym.Term{x})
		if err != nil {
			return "?"
		}
		if x.Sort == sym.SBool {
			return vals[0] != 0
		}
		return vals[0]
	case *Str:
		if x.kind == sConc {
			return x.conc
		}
		if x.kind == sAtom {
			vals, err := in.Sol.Values([]*sym.Term{x.atom})
			if err != nil {
				return "?"
			}
			if s, ok := atomString(vals[0]); ok {
				return s
			}
			return fmt.Sprintf("atom%d", vals[0])
		}
		ln := in.evalValue(in.strLen(x))
		n, _ := ln.(int64)
		if n > 4096 {
			return fmt.Sprintf("<string of length %d>", n)
		}
		var ts []*sym.Term
		for j := int64(0); j < n; j++ {
			ts = append(ts, in.strAt(x, in.St.Int(j)))
		}
		vals, err := in.Sol.Values(ts)
		if err != nil {
			return "?"
		}
		b := make([]byte, n)
		for j := range b {
			b[j] = byte(vals[j])
		}
		return string(b)
	case *SliceV:
		if x.arr == nil {
			return []interface{}{}
		}
		out := make([]interface{}, 0, x.len)
		for i := 0; i < x.len; i++ {
			out = append(out, in.evalValue(in.load(&Ptr{cell: x.arr, path: []int{x.off + i}})))
		}
		return out
	case *StructV:
		out := map[string]interface{}{}
		for i, f := range x.fields {
			out[x.typ.Field(i).Name()] = in.evalValue(f)
		}
		return out
	case *Ptr:
		if x.IsNil() {
			return nil
		}
		if x.host != nil {
			return "<hostptr>"
		}
		return in.evalValue(in.load(x))
	case *IfaceV:
		if x.typ == nil {
			return nil
		}
		return in.evalValue(x.val)
	case *BytesV:
		return in.evalValue(x.s)
	case nil:
		return nil
	}
	return fmt.Sprintf("<%T>", v)
}

// ---------- result summary helpers ----------

func (ex *Explorer) SortedFuncs() []string {
	var out []string
	for f, n := range ex.FuncsEncoded {
		out = append(out, fmt.Sprintf("%s (%d instr)", f, n))
	}
	sort.Strings(out)
	return out
}

func debugf(format string, args ...interface{}) {
	if os.Getenv("GOSYM_DEBUG") != "" {
		fmt.Fprintf(os.Stderr, format+"\n", args...)
	}
}
