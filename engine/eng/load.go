package eng

import (
	"fmt"
	"go/types"
	"os"
	"path/filepath"
	"sort"
	"strings"

	"golang.org/x/tools/go/packages"
	"golang.org/x/tools/go/ssa"
	"golang.org/x/tools/go/ssa/ssautil"
)

const RepoMod = "github.com/a14e/gogreement"

// Program is the loaded, SSA-built code under test plus harness overlay. Read-only after Load.
type Program struct {
	RepoDir        string
	Prog           *ssa.Program
	Pkgs           []*packages.Package
	SSAPkgs        map[string]*ssa.Package  // by import path
	Funcs          map[string]*ssa.Function // by full name (fn.String())
	Overlay        map[string][]byte
	OverlayFiles   map[string]string // virtual path -> real path (for replay -overlay)
	DroppedHarness map[string]string // harness file that does not compile against the tree under test -> first error
	LoadSecs       float64
	fieldIdx       map[*types.Struct]map[string]int
}

// BuildOverlay maps /verif/harness/<rel>.go to <repo>/src/<rel>.go.
// harness/nd/*.go       -> <repo>/src/zzverif/nd/*.go
// harness/<pkg>/zz_*.go -> <repo>/src/<pkg>/zz_*.go
func BuildOverlay(repoDir, harnessDir string) (map[string][]byte, map[string]string, error) {
	ov := map[string][]byte{}
	files := map[string]string{}
	err := filepath.Walk(harnessDir, func(p string, info os.FileInfo, err error) error {
		if err != nil {
			return err
		}
		if info.IsDir() || !strings.HasSuffix(p, ".go") {
			return nil
		}
		rel, _ := filepath.Rel(harnessDir, p)
		if strings.HasSuffix(rel, "_test.go") {
			return nil
		}
		dst := filepath.Join(repoDir, "src", rel)
		if strings.HasPrefix(rel, "nd"+string(filepath.Separator)) || strings.HasPrefix(rel, "zz") {
			dst = filepath.Join(repoDir, "src", "zzverif", rel)
		}
		b, err := os.ReadFile(p)
		if err != nil {
			return err
		}
		ov[dst] = b
		files[dst] = p
		return nil
	})
	return ov, files, err
}

func Load(repoDir, harnessDir string) (*Program, error) {
	ov, files, err := BuildOverlay(repoDir, harnessDir)
	if err != nil {
		return nil, err
	}
	env := append(os.Environ(), "GOFLAGS=-mod=mod", "GOPROXY=off")
	// A tree that renamed or removed an unexported identifier an in-package harness file refers to must not take all
	// checks down: harness files with type errors are dropped (and remembered) and the tree is loaded again; only the
	// runs whose harness lived in a dropped file become inconclusive.
	dropped := map[string]string{}
	var pkgs []*packages.Package
	for round := 0; ; round++ {
		cfg := &packages.Config{
			Mode:    packages.LoadAllSyntax,
			Dir:     repoDir,
			Overlay: ov,
			Env:     env,
			Tests:   false,
		}
		var err error
		pkgs, err = packages.Load(cfg, "./src/...")
		if err != nil {
			return nil, err
		}
		var errs []string
		bad := map[string]string{}
		packages.Visit(pkgs, nil, func(p *packages.Package) {
			for _, e := range p.Errors {
				errs = append(errs, e.Error())
				file := e.Pos
				if i := strings.Index(file, ".go:"); i >= 0 {
					file = file[:i+3]
				}
				if _, isHarness := files[file]; isHarness && !strings.Contains(file, string(filepath.Separator)+"zzverif"+string(filepath.Separator)+"nd"+string(filepath.Separator)) {
					if _, seen := bad[file]; !seen {
						bad[file] = e.Error()
					}
				}
			}
		})
		if len(errs) == 0 {
			break
		}
		if len(bad) == 0 || round >= 3 {
			sort.Strings(errs)
			if len(errs) > 10 {
				errs = errs[:10]
			}
			return nil, fmt.Errorf("package load errors (tree under test does not build):\n%s", strings.Join(errs, "\n"))
		}
		for f, e := range bad {
			dropped[files[f]] = e
			delete(ov, f)
			delete(files, f)
		}
	}
	prog, _ := ssautil.AllPackages(pkgs, ssa.InstantiateGenerics)
	prog.Build()
	p := &Program{RepoDir: repoDir, Prog: prog, Pkgs: pkgs, SSAPkgs: map[string]*ssa.Package{}, Funcs: map[string]*ssa.Function{}, Overlay: ov, OverlayFiles: files, fieldIdx: map[*types.Struct]map[string]int{}}
	for _, sp := range prog.AllPackages() {
		p.SSAPkgs[sp.Pkg.Path()] = sp
	}
	for fn := range ssautil.AllFunctions(prog) {
		p.Funcs[fn.String()] = fn
	}
	p.DroppedHarness = dropped
	return p, nil
}

func (p *Program) Func(full string) *ssa.Function { return p.Funcs[full] }

// PkgFunc finds a package-level function by import path and name.
func (p *Program) PkgFunc(path, name string) *ssa.Function {
	sp := p.SSAPkgs[path]
	if sp == nil {
		return nil
	}
	return sp.Func(name)
}

// LookupType finds a named type by package path and name.
func (p *Program) LookupType(path, name string) types.Type {
	sp := p.SSAPkgs[path]
	if sp == nil {
		return nil
	}
	o := sp.Pkg.Scope().Lookup(name)
	if o == nil {
		return nil
	}
	return o.Type()
}
