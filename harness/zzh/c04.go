package zzh

import (
	"github.com/a14e/gogreement/src/config"
	"github.com/a14e/gogreement/src/zzverif/nd"
)

const c04SrcD = `package d

//«annT»
//«annT2»
type T struct{}

type Free struct{}

//«annF»
func F() {}

func Open() {}

//«annM»
func (t *T) M() {}

func (t *T) N() {}

func Inside() {
	F() // D-CALL
	var t T // D-VAR
	t.M() // D-MCALL
}
`

const c04SrcU = `package u

import "zzmod/d"

func Use(t *d.T) { // U-PARAM
	d.F() // U-CALL
	d.Open() // U-OPEN
	t.M() // U-MCALL
	t.N() // U-NCALL
	f := t.M // U-MVALUE
	_ = f
	d.F() // U-CALL2
	_ = d.T{} // U-LIT
	var v d.T // U-VAR
	_ = v
	_ = d.Free{} // U-FREE
}

type Holder struct {
	t d.T // U-FIELD
}
`

const c04SrcU2 = `package u

import "zzmod/d"

var second d.T // U2-VAR

func Again() {
	d.F() // U2-CALL
}
`

// a user package whose declared name (other) differs from the last element of its path (zzmod/usr/v2)
const c04SrcV2 = `package other

import "zzmod/d"

func Use(t *d.T) { // V2-PARAM
	d.F() // V2-CALL
	t.M() // V2-MCALL
}
`

// ZZC04Cross: references from package u (path zzmod/u, name u) to @packageonly items of d; allow-list shapes symbolic
// (bare, by name, by path, several entries with trailing comma, second annotation line, not listed, absent).
func ZZC04Cross() {
	annT := nd.EnumPad("annT", " @packageonly", " @packageonly u", " @packageonly zzmod/u", " @packageonly w, zzmod/u ,", " @packageonly w,x", " @packageonly other", " @packageonly v2", " plain")
	annT2 := nd.EnumPad("annT2", " @packageonly u", " @packageonly y", " plain")
	annF := nd.EnumPad("annF", " @packageonly", " @packageonly u", " @packageonly zzmod/u", " @packageonly uu", " @packageonly v2, other", " @packageonly zzmod/usr/v2", " plain")
	annM := nd.EnumPad("annM", " @packageonly", " @packageonly x, u", " @packageonly zzmod", " @packageonly v2", " plain")
	holes := []nd.Hole{{"annT", annT}, {"annT2", annT2}, {"annF", annF}, {"annM", annM}}
	files := []nd.File{{Pkg: "zzmod/d", Name: "d.go", Src: c04SrcD}, {Pkg: "zzmod/u", Name: "u.go", Src: c04SrcU}, {Pkg: "zzmod/u", Name: "u2.go", Src: c04SrcU2}, {Pkg: "zzmod/usr/v2", Name: "v.go", Src: c04SrcV2}}
	prog := nd.LoadProgram(files, holes)
	cfg := config.Default()
	rd := Analyze(prog, cfg, "zzmod/d", Facts{}, "pkgo")
	ru := Analyze(prog, cfg, "zzmod/u", Facts{"zzmod/d": &rd.Ann}, "pkgo")
	rv := Analyze(prog, cfg, "zzmod/usr/v2", Facts{"zzmod/d": &rd.Ann}, "pkgo")

	// the declaring package is always allowed
	CheckExact(rd.Diags, []Expect{}, "C04 declaring package")

	annotT := nd.Or(nd.HasPrefix(annT, " @packageonly"), nd.HasPrefix(annT2, " @packageonly"))
	allowT := nd.Or(nd.HasPrefix(annT, " @packageonly u "), nd.HasPrefix(annT, " @packageonly zzmod/u "), nd.HasPrefix(annT, " @packageonly w, zzmod/u ,"), nd.HasPrefix(annT2, " @packageonly u"))
	annotF := nd.HasPrefix(annF, " @packageonly")
	allowF := nd.Or(nd.HasPrefix(annF, " @packageonly u "), nd.HasPrefix(annF, " @packageonly zzmod/u "))
	annotM := nd.HasPrefix(annM, " @packageonly")
	allowM := nd.HasPrefix(annM, " @packageonly x, u")
	fu := "/zz/zzmod/u/u.go"
	src := c04SrcU
	badF := nd.And(annotF, nd.Not(allowF))
	badM := nd.And(annotM, nd.Not(allowM))
	// package "other" at path zzmod/usr/v2: allowed by its NAME (other) or its PATH, not by the directory name v2
	fv := "/zz/zzmod/usr/v2/v.go"
	allowTv := nd.HasPrefix(annT, " @packageonly other")
	allowFv := nd.Or(nd.HasPrefix(annF, " @packageonly v2, other"), nd.HasPrefix(annF, " @packageonly zzmod/usr/v2"))
	CheckExact(rv.Diags, []Expect{
		{fv, nd.LineOf(c04SrcV2, "V2-PARAM"), "PKGO01", nd.And(annotT, nd.Not(allowTv))},
		{fv, nd.LineOf(c04SrcV2, "V2-CALL"), "PKGO02", nd.And(annotF, nd.Not(allowFv))},
		{fv, nd.LineOf(c04SrcV2, "V2-MCALL"), "PKGO03", annotM}, // no spelling of annM allows package other
	}, "C04 user package whose name differs from its directory")
	fu2 := "/zz/zzmod/u/u2.go"
	CheckExact(ru.Diags, []Expect{
		// once per FILE and type: the second file of the package gets its own PKGO01
		{fu2, nd.LineOf(c04SrcU2, "U2-VAR"), "PKGO01", nd.And(annotT, nd.Not(allowT))},
		{fu2, nd.LineOf(c04SrcU2, "U2-CALL"), "PKGO02", nd.And(annotF, nd.Not(allowF))},
		{fu, nd.LineOf(src, "U-PARAM"), "PKGO01", nd.And(annotT, nd.Not(allowT))}, // first use of d.T in the file
		{fu, nd.LineOf(src, "U-CALL"), "PKGO02", badF},
		{fu, nd.LineOf(src, "U-CALL2"), "PKGO02", badF},
		{fu, nd.LineOf(src, "U-MCALL"), "PKGO03", badM},
		{fu, nd.LineOf(src, "U-MVALUE"), "PKGO03", badM},
	}, "C04 importing package")
}

const c04SrcD2 = `package d

//«annT»
type T struct{}

//«annR»
type R struct{}

//«annTM»
//«annTM2»
func (t *T) M() {}

//«annRM»
func (r *R) M() {}

//«annFM»
func M() {}

// the same annotation as R.M on a method whose receiver type is spelled through an alias, in parentheses
type RA = R

//«annRM»
func (r *(RA)) M2() {}

// an unannotated method of an unnamed interface type that shares that method's name
var Iface interface{ M2() }

func Inside(t *T, r *R) {
	t.M()
	r.M()
	r.M2()
	M()
}
`

const c04SrcU1 = `package u

import "zzmod/d"

var Tv d.T // U1-TV

var Rv d.R // U1-RV
`

// a file of the user package without any import declaration: it reaches the restricted methods through variables of u1.go
const c04SrcU3 = `package u

func Third() {
	Tv.M() // U3-TM
	Rv.M() // U3-RM
	f := Tv.M // U3-TMV
	_ = f
}
`

// a user package that shares the declaring package's NAME (d) but not its path
const c04SrcW = `package d

import dd "zzmod/d"

func Use(
	t *dd.T, // W-PT
	r *dd.R, // W-PR
) {
	t.M() // W-TM
	r.M() // W-RM
	dd.M() // W-FM
	g := (*dd.T).M // W-MEXPR
	_ = g
	r.M2() // W-RM2
	dd.Iface.M2() // W-IFACE
}
`

// a user package that dot-imports the declaring package: references are bare identifiers
const c04SrcDot = `package dot

import . "zzmod/d"

func Use(
	t *T, // DOT-PT
) {
	t.M() // DOT-TM
	M() // DOT-FM
}
`

// files whose ONLY reference to the restricted types is an embedded field
const c04SrcWEmb = `package d

import dd "zzmod/d"

type Emb struct {
	dd.T // W-EMB
}

type EmbP struct {
	*dd.R // W-EMBP
}
`

const c04SrcDotEmb = `package dot

import . "zzmod/d"

type E struct {
	R // DOT-EMB
}
`

// ZZC04Names: two types of d with a method of the SAME name (plus a function of that name), each with its own allow-list;
// a user package that shares d's package name under another path; a user file without imports.
func ZZC04Names() {
	annT := nd.EnumPad("annT", " @packageonly", " @packageonly d", " @packageonly zzmod/x/d", " @packageonly u", " plain")
	annR := nd.EnumPad("annR", " @packageonly u", " @packageonly d, u", " plain")
	annTM := nd.EnumPad("annTM", " @packageonly", " @packageonly u", " @packageonly u, d", " @packageonly u, u, d", " plain")
	annTM2 := nd.EnumPad("annTM2", " @packageonly d", " plain")
	annRM := nd.EnumPad("annRM", " @packageonly", " @packageonly u", " @packageonly zzmod/x/d", " plain")
	annFM := nd.EnumPad("annFM", " @packageonly", " @packageonly u", " @packageonly d", " plain")
	holes := []nd.Hole{{"annT", annT}, {"annR", annR}, {"annTM", annTM}, {"annTM2", annTM2}, {"annRM", annRM}, {"annFM", annFM}}
	files := []nd.File{{Pkg: "zzmod/d", Name: "d.go", Src: c04SrcD2}, {Pkg: "zzmod/u", Name: "u1.go", Src: c04SrcU1}, {Pkg: "zzmod/u", Name: "u3.go", Src: c04SrcU3}, {Pkg: "zzmod/x/d", Name: "w.go", Src: c04SrcW}, {Pkg: "zzmod/dot", Name: "dot.go", Src: c04SrcDot},
		{Pkg: "zzmod/x/d", Name: "emb.go", Src: c04SrcWEmb}, {Pkg: "zzmod/dot", Name: "dotemb.go", Src: c04SrcDotEmb}}
	prog := nd.LoadProgram(files, holes)
	cfg := config.Default()
	rd := Analyze(prog, cfg, "zzmod/d", Facts{}, "pkgo")
	ru := Analyze(prog, cfg, "zzmod/u", Facts{"zzmod/d": &rd.Ann}, "pkgo")
	rw := Analyze(prog, cfg, "zzmod/x/d", Facts{"zzmod/d": &rd.Ann}, "pkgo")
	rdot := Analyze(prog, cfg, "zzmod/dot", Facts{"zzmod/d": &rd.Ann}, "pkgo")
	CheckExact(rd.Diags, []Expect{}, "C04 declaring package")

	on := func(a string) bool { return nd.HasPrefix(a, " @packageonly") }
	onTM := nd.Or(on(annTM), on(annTM2))
	// no spelling allows package dot (path zzmod/dot)
	CheckExact(rdot.Diags, []Expect{
		{"/zz/zzmod/dot/dot.go", nd.LineOf(c04SrcDot, "DOT-PT"), "PKGO01", on(annT)},
		{"/zz/zzmod/dot/dot.go", nd.LineOf(c04SrcDot, "DOT-TM"), "PKGO03", onTM},
		{"/zz/zzmod/dot/dot.go", nd.LineOf(c04SrcDot, "DOT-FM"), "PKGO02", on(annFM)},
		{"/zz/zzmod/dot/dotemb.go", nd.LineOf(c04SrcDotEmb, "DOT-EMB"), "PKGO01", on(annR)},
	}, "C04 dot-importing user package")
	uT := nd.HasPrefix(annT, " @packageonly u")
	wT := nd.Or(nd.HasPrefix(annT, " @packageonly d"), nd.HasPrefix(annT, " @packageonly zzmod/x/d"))
	uR := nd.Or(nd.HasPrefix(annR, " @packageonly u"), nd.HasPrefix(annR, " @packageonly d, u"))
	wR := nd.HasPrefix(annR, " @packageonly d, u")
	uTM := nd.HasPrefix(annTM, " @packageonly u")
	// the union of BOTH annotation lines; an entry repeated within a line changes nothing
	wTM := nd.Or(nd.HasPrefix(annTM, " @packageonly u, d"), nd.HasPrefix(annTM, " @packageonly u, u, d"), nd.HasPrefix(annTM2, " @packageonly d"))
	uRM := nd.HasPrefix(annRM, " @packageonly u")
	wRM := nd.HasPrefix(annRM, " @packageonly zzmod/x/d")
	wFM := nd.HasPrefix(annFM, " @packageonly d")
	f1, f3, fw := "/zz/zzmod/u/u1.go", "/zz/zzmod/u/u3.go", "/zz/zzmod/x/d/w.go"
	CheckExact(ru.Diags, []Expect{
		{f1, nd.LineOf(c04SrcU1, "U1-TV"), "PKGO01", nd.And(on(annT), nd.Not(uT))},
		{f1, nd.LineOf(c04SrcU1, "U1-RV"), "PKGO01", nd.And(on(annR), nd.Not(uR))},
		{f3, nd.LineOf(c04SrcU3, "U3-TM"), "PKGO03", nd.And(onTM, nd.Not(uTM))},
		{f3, nd.LineOf(c04SrcU3, "U3-RM"), "PKGO03", nd.And(on(annRM), nd.Not(uRM))},
		{f3, nd.LineOf(c04SrcU3, "U3-TMV"), "PKGO03", nd.And(onTM, nd.Not(uTM))},
	}, "C04 same-named methods, file without imports")
	CheckExact(rw.Diags, []Expect{
		{fw, nd.LineOf(c04SrcW, "W-PT"), "PKGO01", nd.And(on(annT), nd.Not(wT))},
		{fw, nd.LineOf(c04SrcW, "W-PR"), "PKGO01", nd.And(on(annR), nd.Not(wR))},
		{fw, nd.LineOf(c04SrcW, "W-TM"), "PKGO03", nd.And(onTM, nd.Not(wTM))},
		{fw, nd.LineOf(c04SrcW, "W-RM"), "PKGO03", nd.And(on(annRM), nd.Not(wRM))},
		{fw, nd.LineOf(c04SrcW, "W-FM"), "PKGO02", nd.And(on(annFM), nd.Not(wFM))},
		{fw, nd.LineOf(c04SrcW, "W-MEXPR"), "PKGO03", nd.And(onTM, nd.Not(wTM))},
		{fw, nd.LineOf(c04SrcW, "W-RM2"), "PKGO03", nd.And(on(annRM), nd.Not(wRM))},
		// W-IFACE: nothing — the interface's method is not annotated
		// an embedded field is a reference to the type like a named field
		{"/zz/zzmod/x/d/emb.go", nd.LineOf(c04SrcWEmb, "W-EMB"), "PKGO01", nd.And(on(annT), nd.Not(wT))},
		{"/zz/zzmod/x/d/emb.go", nd.LineOf(c04SrcWEmb, "W-EMBP"), "PKGO01", nd.And(on(annR), nd.Not(wR))},
	}, "C04 user package sharing the declaring package's name")
}

const c04SrcCore = `package core

//«annF»
func F() {}

//«annT»
type T struct{}
`

const c04SrcAppCore = `package core

import dcore "core"

func Use() {
	dcore.F() // AC-CALL
	_ = dcore.T{} // AC-LIT
}
`

// ZZC04SelfName: "a bare @packageonly allows only D" also when D's import path is a single element that another
// package carries as its NAME (D = "core", user = ".../app/core", package core).
func ZZC04SelfName() {
	annF := nd.EnumPad("annF", " @packageonly", " @packageonly other", " @packageonly core/x", " plain")
	annT := nd.EnumPad("annT", " @packageonly", " @packageonly other", " plain")
	holes := []nd.Hole{{"annF", annF}, {"annT", annT}}
	files := []nd.File{{Pkg: "core", Name: "c.go", Src: c04SrcCore}, {Pkg: "zzmod/app/core", Name: "u.go", Src: c04SrcAppCore}}
	prog := nd.LoadProgram(files, holes)
	cfg := config.Default()
	rd := Analyze(prog, cfg, "core", Facts{}, "pkgo")
	ru := Analyze(prog, cfg, "zzmod/app/core", Facts{"core": &rd.Ann}, "pkgo")
	f := "/zz/zzmod/app/core/u.go"
	CheckExact(ru.Diags, []Expect{
		{f, nd.LineOf(c04SrcAppCore, "AC-CALL"), "PKGO02", nd.HasPrefix(annF, " @packageonly")},
		{f, nd.LineOf(c04SrcAppCore, "AC-LIT"), "PKGO01", nd.HasPrefix(annT, " @packageonly")},
	}, "C04 the implicit entry for the declaring package is its PATH, not a package name")
}
