package zzh

import (
	"github.com/a14e/gogreement/src/config"
	"github.com/a14e/gogreement/src/zzverif/nd"
)

const c04SrcD = `package d

//«annT»
//«annT2»
type T struct{}

type Free struct{}

//«annF»
func F() {}

func Open() {}

//«annM»
func (t *T) M() {}

func (t *T) N() {}

func Inside() {
	F() // D-CALL
	var t T // D-VAR
	t.M() // D-MCALL
}
`

const c04SrcU = `package u

import "zzmod/d"

func Use(t *d.T) { // U-PARAM
	d.F() // U-CALL
	d.Open() // U-OPEN
	t.M() // U-MCALL
	t.N() // U-NCALL
	f := t.M // U-MVALUE
	_ = f
	d.F() // U-CALL2
	_ = d.T{} // U-LIT
	var v d.T // U-VAR
	_ = v
	_ = d.Free{} // U-FREE
}

type Holder struct {
	t d.T // U-FIELD
}
`

const c04SrcU2 = `package u

import "zzmod/d"

var second d.T // U2-VAR

func Again() {
	d.F() // U2-CALL
}
`

// a user package whose declared name (other) differs from the last element of its path (zzmod/usr/v2)
const c04SrcV2 = `package other

import "zzmod/d"

func Use(t *d.T) { // V2-PARAM
	d.F() // V2-CALL
	t.M() // V2-MCALL
}
`

// ZZC04Cross: references from package u (path zzmod/u, name u) to @packageonly items of d; allow-list shapes symbolic
// (bare, by name, by path, several entries with trailing comma, second annotation line, not listed, absent).
func ZZC04Cross() {
	annT := nd.EnumPad("annT", " @packageonly", " @packageonly u", " @packageonly zzmod/u", " @packageonly w, zzmod/u ,", " @packageonly w,x", " @packageonly other", " @packageonly v2", " plain")
	annT2 := nd.EnumPad("annT2", " @packageonly u", " @packageonly y", " plain")
	annF := nd.EnumPad("annF", " @packageonly", " @packageonly u", " @packageonly zzmod/u", " @packageonly uu", " @packageonly v2, other", " @packageonly zzmod/usr/v2", " plain")
	annM := nd.EnumPad("annM", " @packageonly", " @packageonly x, u", " @packageonly zzmod", " @packageonly v2", " plain")
	holes := []nd.Hole{{"annT", annT}, {"annT2", annT2}, {"annF", annF}, {"annM", annM}}
	files := []nd.File{{Pkg: "zzmod/d", Name: "d.go", Src: c04SrcD}, {Pkg: "zzmod/u", Name: "u.go", Src: c04SrcU}, {Pkg: "zzmod/u", Name: "u2.go", Src: c04SrcU2}, {Pkg: "zzmod/usr/v2", Name: "v.go", Src: c04SrcV2}}
	prog := nd.LoadProgram(files, holes)
	cfg := config.Default()
	rd := Analyze(prog, cfg, "zzmod/d", Facts{}, "pkgo")
	ru := Analyze(prog, cfg, "zzmod/u", Facts{"zzmod/d": &rd.Ann}, "pkgo")
	rv := Analyze(prog, cfg, "zzmod/usr/v2", Facts{"zzmod/d": &rd.Ann}, "pkgo")

	// the declaring package is always allowed
	CheckExact(rd.Diags, []Expect{}, "C04 declaring package")

	annotT := nd.Or(nd.HasPrefix(annT, " @packageonly"), nd.HasPrefix(annT2, " @packageonly"))
	allowT := nd.Or(nd.HasPrefix(annT, " @packageonly u "), nd.HasPrefix(annT, " @packageonly zzmod/u "), nd.HasPrefix(annT, " @packageonly w, zzmod/u ,"), nd.HasPrefix(annT2, " @packageonly u"))
	annotF := nd.HasPrefix(annF, " @packageonly")
	allowF := nd.Or(nd.HasPrefix(annF, " @packageonly u "), nd.HasPrefix(annF, " @packageonly zzmod/u "))
	annotM := nd.HasPrefix(annM, " @packageonly")
	allowM := nd.HasPrefix(annM, " @packageonly x, u")
	fu := "/zz/zzmod/u/u.go"
	src := c04SrcU
	badF := nd.And(annotF, nd.Not(allowF))
	badM := nd.And(annotM, nd.Not(allowM))
	// package "other" at path zzmod/usr/v2: allowed by its NAME (other) or its PATH, not by the directory name v2
	fv := "/zz/zzmod/usr/v2/v.go"
	allowTv := nd.HasPrefix(annT, " @packageonly other")
	allowFv := nd.Or(nd.HasPrefix(annF, " @packageonly v2, other"), nd.HasPrefix(annF, " @packageonly zzmod/usr/v2"))
	CheckExact(rv.Diags, []Expect{
		{fv, nd.LineOf(c04SrcV2, "V2-PARAM"), "PKGO01", nd.And(annotT, nd.Not(allowTv))},
		{fv, nd.LineOf(c04SrcV2, "V2-CALL"), "PKGO02", nd.And(annotF, nd.Not(allowFv))},
		{fv, nd.LineOf(c04SrcV2, "V2-MCALL"), "PKGO03", annotM}, // no spelling of annM allows package other
	}, "C04 user package whose name differs from its directory")
	fu2 := "/zz/zzmod/u/u2.go"
	CheckExact(ru.Diags, []Expect{
		// once per FILE and type: the second file of the package gets its own PKGO01
		{fu2, nd.LineOf(c04SrcU2, "U2-VAR"), "PKGO01", nd.And(annotT, nd.Not(allowT))},
		{fu2, nd.LineOf(c04SrcU2, "U2-CALL"), "PKGO02", nd.And(annotF, nd.Not(allowF))},
		{fu, nd.LineOf(src, "U-PARAM"), "PKGO01", nd.And(annotT, nd.Not(allowT))}, // first use of d.T in the file
		{fu, nd.LineOf(src, "U-CALL"), "PKGO02", badF},
		{fu, nd.LineOf(src, "U-CALL2"), "PKGO02", badF},
		{fu, nd.LineOf(src, "U-MCALL"), "PKGO03", badM},
		{fu, nd.LineOf(src, "U-MVALUE"), "PKGO03", badM},
	}, "C04 importing package")
}
