package zzh

import (
	"github.com/a14e/gogreement/src/config"
	"github.com/a14e/gogreement/src/zzverif/nd"
)

const c04SrcD = `package d

//«annT»
//«annT2»
type T struct{}

type Free struct{}

//«annF»
func F() {}

func Open() {}

//«annM»
func (t *T) M() {}

func (t *T) N() {}

func Inside() {
	F() // D-CALL
	var t T // D-VAR
	t.M() // D-MCALL
}
`

const c04SrcU = `package u

import "zzmod/d"

func Use(t *d.T) { // U-PARAM
	d.F() // U-CALL
	d.Open() // U-OPEN
	t.M() // U-MCALL
	t.N() // U-NCALL
	f := t.M // U-MVALUE
	_ = f
	d.F() // U-CALL2
	_ = d.T{} // U-LIT
	var v d.T // U-VAR
	_ = v
	_ = d.Free{} // U-FREE
}

type Holder struct {
	t d.T // U-FIELD
}
`

// ZZC04Cross: references from package u (path zzmod/u, name u) to @packageonly items of d; allow-list shapes symbolic
// (bare, by name, by path, several entries with trailing comma, second annotation line, not listed, absent).
func ZZC04Cross() {
	annT := nd.EnumPad("annT", " @packageonly", " @packageonly u", " @packageonly zzmod/u", " @packageonly w, zzmod/u ,", " @packageonly w,x", " plain")
	annT2 := nd.EnumPad("annT2", " @packageonly u", " @packageonly y", " plain")
	annF := nd.EnumPad("annF", " @packageonly", " @packageonly u", " @packageonly zzmod/u", " @packageonly uu", " plain")
	annM := nd.EnumPad("annM", " @packageonly", " @packageonly x, u", " @packageonly zzmod", " plain")
	holes := []nd.Hole{{"annT", annT}, {"annT2", annT2}, {"annF", annF}, {"annM", annM}}
	files := []nd.File{{Pkg: "zzmod/d", Name: "d.go", Src: c04SrcD}, {Pkg: "zzmod/u", Name: "u.go", Src: c04SrcU}}
	prog := nd.LoadProgram(files, holes)
	cfg := config.Default()
	rd := Analyze(prog, cfg, "zzmod/d", Facts{}, "pkgo")
	ru := Analyze(prog, cfg, "zzmod/u", Facts{"zzmod/d": &rd.Ann}, "pkgo")

	// the declaring package is always allowed
	CheckExact(rd.Diags, []Expect{}, "C04 declaring package")

	annotT := nd.Or(nd.HasPrefix(annT, " @packageonly"), nd.HasPrefix(annT2, " @packageonly"))
	allowT := nd.Or(nd.HasPrefix(annT, " @packageonly u "), nd.HasPrefix(annT, " @packageonly zzmod/u"), nd.HasPrefix(annT, " @packageonly w, zzmod/u"), nd.HasPrefix(annT2, " @packageonly u"))
	annotF := nd.HasPrefix(annF, " @packageonly")
	allowF := nd.Or(nd.HasPrefix(annF, " @packageonly u "), nd.HasPrefix(annF, " @packageonly zzmod/u"))
	annotM := nd.HasPrefix(annM, " @packageonly")
	allowM := nd.HasPrefix(annM, " @packageonly x, u")
	fu := "/zz/zzmod/u/u.go"
	src := c04SrcU
	badF := nd.And(annotF, nd.Not(allowF))
	badM := nd.And(annotM, nd.Not(allowM))
	CheckExact(ru.Diags, []Expect{
		{fu, nd.LineOf(src, "U-PARAM"), "PKGO01", nd.And(annotT, nd.Not(allowT))}, // first use of d.T in the file
		{fu, nd.LineOf(src, "U-CALL"), "PKGO02", badF},
		{fu, nd.LineOf(src, "U-CALL2"), "PKGO02", badF},
		{fu, nd.LineOf(src, "U-MCALL"), "PKGO03", badM},
		{fu, nd.LineOf(src, "U-MVALUE"), "PKGO03", badM},
	}, "C04 importing package")
}
