package zzh

import (
	"go/types"
	"strings"

	"github.com/a14e/gogreement/src/config"
	"github.com/a14e/gogreement/src/zzverif/nd"
)

const c05SrcYaml = `package yaml

type M interface {
	Do(p *int)
}

type N interface {
	Do(p **int)
}

type E struct{}

func (e *E) Do(p *int) {}

// an unexported method m(int): promoted into embedders, never satisfies another package's m()
type E2 struct{}

func (E2) m(int) {}

// same NAME as ifs.Reader, different contract
type Reader interface {
	Read(p []byte) (int, error)
	Extra()
}
`

const c05SrcIfs = `package ifs

type MyAlias = int

type Named int

type Reader interface {
	Read(p []byte) (int, error)
}

type Var interface {
	V(xs ...int)
}

type Sl interface {
	V(xs []int)
}

type Al interface {
	A(x MyAlias) Named
}

type Fn interface {
	F(f func(int) string, m map[string]*Named)
}

type RC interface {
	Reader
	Close() error
}

type Empty interface{}

type NotIface struct{}

// sealed-interface idiom: only types embedding Base (from this package) can implement Sealed
type Sealed interface {
	sealed()
	Name() string
}

type Base struct{}

func (Base) sealed() {}

// identical types that print differently
type AnyI interface {
	M(x any, ys ...any)
}

type ByteI interface {
	W(p []byte) (n int, err error)
	R() rune
}

type FnNames interface {
	Each(fn func(key string, value int) bool)
}

type AlComp interface {
	C(xs []MyAlias, m map[MyAlias]MyAlias, ch chan MyAlias, f func(MyAlias) MyAlias)
}

// an unexported method of THIS package: a method hidden() declared in another package is a different method
type Hidden interface {
	Pub()
	hidden()
}
`

// a second package whose DECLARED name is ifs as well; package u imports it under an alias and lists it FIRST
const c05SrcOtherIfs = `package ifs

type Reader interface {
	Other()
}
`

const c05SrcU = `package u

import (
	oifs "zzmod/other/ifs"
	"zzmod/ifs"
	yy "zzmod/ifs"
	"zzmod/yamlv3"
)

type Local interface {
	Read(p []byte) (int, error)
}

//«a1»
type T1 struct{}

func (t T1) Read(p []byte) (int, error) { return 0, nil }

//«a2»
type T2 struct{}

func (t *T2) Read(p []byte) (int, error) { return 0, nil }
func (t *T2) Close() error               { return nil }

//«a3»
type T3 struct{}

func (t T3) V(xs ...int) {}

//«a4»
type T4 struct{}

func (t T4) V(xs []int) {}

//«a5»
type T5 struct{}

func (t T5) Do(p **int) {}

//«a6»
type T6 struct {
	*yaml.E
}

//«a7»
type T7 struct{}

func (t T7) A(x int) ifs.Named                           { return 0 }
func (t T7) F(f func(int) string, m map[string]*yy.Named) {}

//«a8»
type T8 struct {
	ifs.Base
}

func (t T8) Name() string { return "" }

//«a10»
type T10 struct{}

func (t T10) M(x interface{}, ys ...interface{}) {}

//«a11»
type T11 struct{}

func (t T11) W(p []uint8) (int, error) { return 0, nil }
func (t T11) R() int32                { return 0 }

//«a12»
type T12 struct{}

func (t T12) Each(fn func(k string, v int) bool) {}

//«a13»
type T13 struct{}

func (t T13) C(xs []int, m map[int]int, ch chan int, f func(int) int) {}

//«a14»
type T14 struct{}

func (t T14) Pub()    {}
func (t T14) hidden() {}

// a defined type whose underlying type is an interface
//«a15»
type T15 interface {
	Read(p []byte) (int, error)
	Close() error
}

type UI interface {
	m()
}

// own m() next to a promoted yaml.m(int): two different methods that share a name
//«a16»
type T16 struct {
	yaml.E2
}

func (t T16) m() {}

var _ = ifs.Named(0)
var _ yy.Empty
var _ yaml.M
var _ oifs.Reader
`

// a second file of package u with DIFFERENT imports: bindings are per file
const c05SrcU2 = `package u

import (
	rd ` + "`zzmod/yamlv3`" + ` // an import path written as a raw string literal
)

//«a9»
type T9 struct{}

func (t T9) Read(p []byte) (int, error) { return 0, nil }
func (t T9) Do(p *int)                  {}

var _ rd.M
`

var c05Alts = []string{
	" @implements ifs.Reader", " @implements &ifs.Reader", " @implements &yy.RC", " @implements ifs.RC", " @implements Local", " @implements &Local",
	" @implements ifs.Var", " @implements ifs.Sl", " @implements yaml.M", " @implements &yaml.M", " @implements yaml.N", " @implements ifs.Al", " @implements &ifs.Fn",
	" @implements ifs.Empty", " @implements ifs.Nope", " @implements ifs.NotIface", " @implements nope.Reader", " @implements yamlv3.M", " @implements u.Local", " plain",
	" @implements ifs.Sealed", " @implements &ifs.Sealed", " @implements rd.M", " @implements &rd.N",
	" @implements oifs.Reader", " @implements ifs.AnyI", " @implements ifs.ByteI", " @implements ifs.FnNames", " @implements ifs.AlComp", " @implements ifs.Hidden", " @implements UI",
}

// what Go's type checker says about one annotation spelling on one type: "" (fine), IMPL01, IMPL02 or IMPL03
func c05GoVerdict(prog *nd.Prog, typeName, alt string) string {
	// bindings of the file's imports: explicit alias, else the imported package's declared name
	bound := map[string]string{"ifs": "zzmod/ifs", "yy": "zzmod/ifs", "yaml": "zzmod/yamlv3", "oifs": "zzmod/other/ifs"}
	if typeName == "T9" { // declared in the second file, which imports only zzmod/yamlv3 as rd
		// (the property counts an import as binding both its explicit alias and the package's declared name)
		bound = map[string]string{"rd": "zzmod/yamlv3", "yaml": "zzmod/yamlv3"}
	}
	alt = strings.TrimSpace(alt)
	if !strings.HasPrefix(alt, "@implements ") {
		return ""
	}
	spec := strings.TrimPrefix(alt, "@implements ")
	ptr := strings.HasPrefix(spec, "&")
	spec = strings.TrimPrefix(spec, "&")
	q, name := "", spec
	if i := strings.Index(spec, "."); i >= 0 {
		q, name = spec[:i], spec[i+1:]
	}
	path := "zzmod/u"
	if q != "" {
		p, ok := bound[q]
		if !ok {
			return "IMPL01"
		}
		path = p
	}
	obj := prog.Pkg(path).Scope().Lookup(name)
	if obj == nil {
		return "IMPL02"
	}
	tn, ok := obj.(*types.TypeName)
	if !ok {
		return "IMPL02"
	}
	iface, ok := tn.Type().Underlying().(*types.Interface)
	if !ok {
		return "IMPL02"
	}
	var t types.Type = prog.Pkg("zzmod/u").Scope().Lookup(typeName).Type()
	if ptr {
		t = types.NewPointer(t)
	}
	if types.Implements(t, iface) {
		return ""
	}
	return "IMPL03"
}

// c05GoMissing: for an annotation spelling whose Go verdict is IMPL03: which methods of the interface does Go consider
// missing or of the wrong type on T (resp. *T)?  name -> missing
func c05GoMissing(prog *nd.Prog, typeName, alt string) map[string]bool {
	alt = strings.TrimSpace(alt)
	spec := strings.TrimPrefix(alt, "@implements ")
	ptr := strings.HasPrefix(spec, "&")
	spec = strings.TrimPrefix(spec, "&")
	q, name := "", spec
	if i := strings.Index(spec, "."); i >= 0 {
		q, name = spec[:i], spec[i+1:]
	}
	bound := map[string]string{"ifs": "zzmod/ifs", "yy": "zzmod/ifs", "yaml": "zzmod/yamlv3", "rd": "zzmod/yamlv3", "": "zzmod/u", "oifs": "zzmod/other/ifs"}
	iface := prog.Pkg(bound[q]).Scope().Lookup(name).Type().Underlying().(*types.Interface)
	var t types.Type = prog.Pkg("zzmod/u").Scope().Lookup(typeName).Type()
	if ptr {
		t = types.NewPointer(t)
	}
	ms := types.NewMethodSet(t)
	out := map[string]bool{}
	for i := 0; i < iface.NumMethods(); i++ {
		m := iface.Method(i)
		sel := ms.Lookup(m.Pkg(), m.Name())
		out[m.Name()] = sel == nil || !types.Identical(sel.Type(), m.Type())
	}
	return out
}

// ZZC05Zoo: @implements annotations (20 spellings: value/pointer contract, unqualified, qualified by package name, by
// explicit alias, by a name that differs from the path's last element, unknown package/interface, non-interface) on seven
// types whose method sets exercise value/pointer receivers, variadic vs slice, pointer depth, alias-typed and named
// parameters, func/map parameters, embedded interfaces and promotion through an embedded pointer: the reported code on
// each type equals the verdict of go/types (Implements / scope lookup / import bindings).
func ZZC05Zoo() {
	typeNames := []string{"T1", "T2", "T3", "T4", "T5", "T6", "T7", "T8", "T9", "T10", "T11", "T12", "T13", "T14", "T15", "T16"}
	holes := []nd.Hole{}
	vals := map[string]string{}
	nonPlain := 0
	for _, tn := range typeNames {
		h := "a" + tn[1:]
		v := nd.EnumPad(h, c05Alts...)
		vals[tn] = v
		holes = append(holes, nd.Hole{Name: h, Value: v})
		nonPlain += nd.IteInt(nd.HasPrefix(v, " plain"), 0, 1)
	}
	nd.Assume(nonPlain <= 1) // stated bound: one annotated type at a time
	// one path per (type, spelling): the oracle below calls go/types on concrete names
	for i, tn := range typeNames {
		vals[tn] = nd.PinStr(vals[tn])
		holes[i].Value = vals[tn]
	}
	files := []nd.File{{Pkg: "zzmod/yamlv3", Name: "y.go", Src: c05SrcYaml}, {Pkg: "zzmod/ifs", Name: "i.go", Src: c05SrcIfs}, {Pkg: "zzmod/other/ifs", Name: "o.go", Src: c05SrcOtherIfs}, {Pkg: "zzmod/u", Name: "u.go", Src: c05SrcU}, {Pkg: "zzmod/u", Name: "u2.go", Src: c05SrcU2}}
	prog := nd.LoadProgram(files, holes)
	res := Analyze(prog, config.Default(), "zzmod/u", Facts{}, "impl")
	width := 0
	for _, a := range c05Alts {
		if len(a) > width {
			width = len(a)
		}
	}
	fallback := false
	for _, tn := range typeNames {
		fallback = nd.Or(fallback, nd.HasPrefix(vals[tn], " @implements yamlv3.M"))

	}
	// known finding: a qualifier equal to the last element of an import PATH (not a bound name) is accepted
	nd.Known("C05/qualifier-path-element-fallback", fallback)
	// Go's verdict for every (type, spelling), computed once
	verdict := map[string]string{}
	for _, tn := range typeNames {
		for _, alt := range c05Alts {
			verdict[tn+"|"+alt] = c05GoVerdict(prog, tn, alt)
		}
	}
	var exp []Expect
	for i, tn := range typeNames {
		file, fsrc := "/zz/zzmod/u/u.go", c05SrcU
		if tn == "T9" {
			file, fsrc = "/zz/zzmod/u/u2.go", c05SrcU2
		}
		line := nd.LineOf(fsrc, "type "+tn+" ")
		_ = i
		for _, code := range []string{"IMPL01", "IMPL02", "IMPL03"} {
			cond := false
			for _, alt := range c05Alts {
				if verdict[tn+"|"+alt] == code {
					padded := alt
					for len(padded) < width {
						padded += " "
					}
					cond = nd.Or(cond, vals[tn] == padded)
				}
			}
			exp = append(exp, Expect{file, line, code, cond})
		}
	}
	CheckExact(res.Diags, exp, "C05 verdict agrees with go/types")
	// the methods listed by IMPL03 are exactly those Go considers missing or of wrong type
	for _, d := range res.Diags {
		if d.Code != "IMPL03" {
			continue
		}
		for _, tn := range typeNames {
			file, fsrc := "/zz/zzmod/u/u.go", c05SrcU
			if tn == "T9" {
				file, fsrc = "/zz/zzmod/u/u2.go", c05SrcU2
			}
			if d.File != file || d.Line != nd.LineOf(fsrc, "type "+tn+" ") {
				continue
			}
			for _, alt := range c05Alts {
				if verdict[tn+"|"+alt] != "IMPL03" {
					continue
				}
				padded := alt
				for len(padded) < width {
					padded += " "
				}
				for name, missing := range c05GoMissing(prog, tn, alt) {
					listed := strings.Contains(d.Msg, "\n  "+name+"(")
					nd.Assert(nd.Implies(vals[tn] == padded, listed == missing), "IMPL03 lists exactly the methods Go considers missing or of wrong type")
				}
			}
		}
	}
}

const c05SrcP = `package u

import (
	"zzmod/ifs"
	"zzmod/yamlv3"
)

type Local interface {
	Read(p []byte) (int, error)
}

//«b1»
//«b2»
type T1 struct{}

func (t T1) Read(p []byte) (int, error) { return 0, nil }

//«c1»
type T2 struct{}

func (t *T2) Read(p []byte) (int, error) { return 0, nil }
func (t *T2) Close() error               { return nil }

var _ ifs.Reader
var _ yaml.Reader
`

var c05PairAlts = []string{" @implements ifs.Reader", " @implements &ifs.Reader", " @implements yaml.Reader", " @implements &yaml.Reader", " @implements Local", " @implements ifs.RC", " @implements &ifs.RC", " @implements nope.Reader", " @implements ifs.Nope", " plain"}

// ZZC05Pairs: TWO annotation lines on one type and a third on a second type at the same time, over spellings that include
// same-named interfaces of different packages (ifs.Reader / yaml.Reader / Local): every line gets its own verdict — the
// number of diagnostics of each code on each type equals the number of its lines with that go/types verdict.
func ZZC05Pairs() {
	b1 := nd.PinStr(nd.EnumPad("b1", c05PairAlts...))
	b2 := nd.PinStr(nd.EnumPad("b2", c05PairAlts...))
	c1 := nd.PinStr(nd.EnumPad("c1", c05PairAlts...))
	// the same spelling twice on one type is outside the claim (the property does not say whether it is reported twice)
	nd.Assume(nd.Or(b1 != b2, nd.HasPrefix(b1, " plain")))
	holes := []nd.Hole{{"b1", b1}, {"b2", b2}, {"c1", c1}}
	files := []nd.File{{Pkg: "zzmod/yamlv3", Name: "y.go", Src: c05SrcYaml}, {Pkg: "zzmod/ifs", Name: "i.go", Src: c05SrcIfs}, {Pkg: "zzmod/u", Name: "u.go", Src: c05SrcP}}
	prog := nd.LoadProgram(files, holes)
	res := Analyze(prog, config.Default(), "zzmod/u", Facts{}, "impl")
	file := "/zz/zzmod/u/u.go"
	for _, tc := range []struct {
		tn    string
		lines []string
	}{{"T1", []string{b1, b2}}, {"T2", []string{c1}}} {
		line := nd.LineOf(c05SrcP, "type "+tc.tn+" struct")
		for _, code := range []string{"IMPL01", "IMPL02", "IMPL03"} {
			want := 0
			for _, l := range tc.lines {
				if c05GoVerdict(prog, tc.tn, l) == code {
					want++
				}
			}
			got := 0
			for _, d := range res.Diags {
				if d.File == file && d.Line == line && d.Code == code {
					got++
				}
			}
			nd.Assert(got == want, "C05 every annotation line of every type gets its own verdict (count per type and code agrees with go/types)")
		}
	}
	for _, d := range res.Diags {
		nd.Assert(d.File == file && (d.Line == nd.LineOf(c05SrcP, "type T1 struct") || d.Line == nd.LineOf(c05SrcP, "type T2 struct")), "C05 no diagnostic elsewhere")
	}
}
