package zzh

import (
	"github.com/a14e/gogreement/src/config"
	"github.com/a14e/gogreement/src/zzverif/nd"
)

const c14SrcA = `package d

// @immutable
type T struct {
	f int
}

// @testonly
func AMock() int { return 1 }

func W(t *T, x *TX) {
	t.f = 1 // A-SITE
	x.g = 2 // A-XSITE
	_ = XMock() // A-XCALL
}
`

const c14SrcX = `//«xig»
package d

// @immutable
type TX struct {
	g int
}

// @testonly
func XMock() int { return 2 }

func XW(t *T) {
	t.f = 3 // X-SITE
	_ = AMock() // X-CALL
}
`

// ZZC14Files: one file of the package has a symbolic name (regular, _test.go, under testdata/, under gen/, look-alikes) and
// the configuration is symbolic; excluded files carry no diagnostics and contribute nothing; with scan-tests on a test
// file is a normal file except for TONL.
func ZZC14Files() {
	// pinned (one path per name): code that takes the name apart (filepath.Dir, Base, Ext) then runs on concrete text
	xname := nd.PinStr(nd.Enum("xname", "x.go", "x_test.go", "testdata/x.go", "gen/x.go", "x_test.go.go", "mytestdata.go"))
	xig := nd.EnumPad("xig", " @ignore ALL", " plain")
	scan := nd.Bool("scan_tests")
	paths := nd.Enum("exclude_paths", "testdata", "", "gen,testdata", "x_")
	var excl []string
	switch paths {
	case "testdata":
		excl = []string{"testdata"}
	case "":
		excl = []string{}
	case "gen,testdata":
		excl = []string{"gen", "testdata"}
	default:
		excl = []string{"x_"}
	}
	holes := []nd.Hole{{"xname", xname}, {"xig", xig}}
	files := []nd.File{{Pkg: "zzmod/d", Name: "a.go", Src: c14SrcA}, {Pkg: "zzmod/d", Name: "«xname»", Src: c14SrcX}}
	prog := nd.LoadProgram(files, holes)
	cfg := config.New(scan, excl, []string{})
	res := Analyze(prog, cfg, "zzmod/d", Facts{}, "imm", "tonl")

	full := "/zz/zzmod/d/" + xname
	byPath := false
	for _, e := range excl {
		byPath = nd.Or(byPath, nd.Contains(full, e))
	}
	isTest := nd.HasSuffix(xname, "_test.go")
	skipX := nd.Or(byPath, nd.And(nd.Not(scan), isTest))
	seen := nd.Not(skipX)
	fileIgnored := nd.HasPrefix(xig, " @ignore ALL") // a file-level @ignore in X only affects X, and only if X is scanned
	fa := "/zz/zzmod/d/a.go"
	CheckExact(res.Diags, []Expect{
		{fa, nd.LineOf(c14SrcA, "A-SITE"), "IMM01", true},
		{fa, nd.LineOf(c14SrcA, "A-XSITE"), "IMM01", seen},
		{fa, nd.LineOf(c14SrcA, "A-XCALL"), "TONL02", seen},
		{full, nd.LineOf(c14SrcX, "X-SITE"), "IMM01", nd.And(seen, nd.Not(fileIgnored))},
		{full, nd.LineOf(c14SrcX, "X-CALL"), "TONL02", nd.And(seen, nd.Not(isTest), nd.Not(fileIgnored))},
	}, "C14 excluded files")
	for _, d := range res.Diags {
		nd.Assert(nd.Not(nd.And(d.File == full, skipX)), "no diagnostic is located in an excluded file")
	}
}
