package zzh

import (
	"github.com/a14e/gogreement/src/config"
	"github.com/a14e/gogreement/src/zzverif/nd"
)

const c13SrcD = `package d

//«annT»
type T struct {
	F int
}

func NewT() *T { return &T{} }

func (t *T) M() {}
`

const c13SrcAl = `package al

import "zzmod/d"

type DT = d.T

type PT = *d.T

// aliases of composite types built from the type
type ST = []d.T

type MT = map[string]*d.T
`

const c13SrcAl2 = `package al2

import "zzmod/al"

type Chain = al.DT

type ChainP = al.PT
`

// aliases used by otherfile.go are declared in a DIFFERENT file of package u
const c13SrcDecls = `package u

import "zzmod/d"

type FarAlias = d.T

type FarPtr = *d.T
`

// one use-site file per spelling of the same type; corresponding lines must receive the same codes
const c13UseTmpl = `package u

import (
	«IMPORTS»
)

«DECLS»

func «FN»(x *«TY», p «PTY») {
	x.F = 1 // SITE-ASSIGN
	x.F++ // SITE-INCDEC
	p.F = 2 // SITE-PTRASSIGN
	_ = «LTY»{} // SITE-LIT
	_ = &«LTY»{} // SITE-PTRLIT
	_ = new(«TY») // SITE-NEW
	var v «TY» // SITE-VAR
	_ = v
	x.M() // SITE-MCALL
}
`

// files whose ONLY reference to the type is one spelling (so that the once-per-file codes cannot be carried by a
// neighbouring spelling on the same line)
const c13OnlyTmpl = `package u

import (
	«IMPORTS»
)

func «FN»(p «PTY») { // ONLY-PARAM
	p.F = 3 // ONLY-ASSIGN
	p.M() // ONLY-MCALL
}
`

// files whose only reference to the type is a composite type built from it: spelled out, and through an alias of a third package
const c13SrcCompDirect = `package u

import "zzmod/d"

var CD []d.T // COMP-DIRECT-SLICE
`

const c13SrcCompDirectM = `package u

import "zzmod/d"

var CDM map[string]*d.T // COMP-DIRECT-MAP
`

const c13SrcCompAlias = `package u

import "zzmod/al"

var CA al.ST // COMP-ALIAS-SLICE
`

const c13SrcCompAliasM = `package u

import "zzmod/al"

var CAM al.MT // COMP-ALIAS-MAP
`

type c13Only struct {
	file, fn, imports, pty string
}

var c13Onlys = []c13Only{
	{"only_direct.go", "OnlyDirect", `"zzmod/d"`, "*d.T"},
	{"only_ptralias3.go", "OnlyPtrAlias3", `"zzmod/al"`, "al.PT"},
	{"only_ptrtoalias3.go", "OnlyPtrToAlias3", `"zzmod/al"`, "*al.DT"},
	{"only_chainp.go", "OnlyChainP", `"zzmod/al2"`, "al2.ChainP"},
	{"only_ptrtochain.go", "OnlyPtrToChain", `"zzmod/al2"`, "*al2.Chain"},
	{"only_farptr.go", "OnlyFarPtr", `_ "zzmod/d"`, "FarPtr"},
	{"only_ptrtofar.go", "OnlyPtrToFar", `_ "zzmod/d"`, "*FarAlias"},
	{"only_parenptr.go", "OnlyParenPtr", `"zzmod/d"`, "*(d.T)"},
}

func c13OnlySrc(v c13Only) string {
	s := c13OnlyTmpl
	s = replaceAll(s, "«IMPORTS»", v.imports)
	s = replaceAll(s, "«FN»", v.fn)
	s = replaceAll(s, "«PTY»", v.pty)
	return s
}

type c13Variant struct {
	file, fn, imports, decls, ty, pty, lty string
}

func c13Src(v c13Variant) string {
	s := c13UseTmpl
	s = replaceAll(s, "«IMPORTS»", v.imports)
	s = replaceAll(s, "«DECLS»", v.decls)
	s = replaceAll(s, "«FN»", v.fn)
	s = replaceAll(s, "«LTY»", v.lty)
	s = replaceAll(s, "«TY»", v.ty)
	s = replaceAll(s, "«PTY»", v.pty)
	return s
}

func replaceAll(s, old, new string) string {
	out := ""
	for {
		i := indexOf(s, old)
		if i < 0 {
			return out + s
		}
		out += s[:i] + new
		s = s[i+len(old):]
	}
}

func indexOf(s, sub string) int {
	for i := 0; i+len(sub) <= len(s); i++ {
		if s[i:i+len(sub)] == sub {
			return i
		}
	}
	return -1
}

var c13Variants = []c13Variant{
	{"direct.go", "UseDirect", `"zzmod/d"`, ``, "d.T", "*d.T", "d.T"},
	{"renamed.go", "UseRenamed", `dd "zzmod/d"`, ``, "dd.T", "*dd.T", "dd.T"},
	{"paren.go", "UseParen", `"zzmod/d"`, ``, "(d.T)", "*(d.T)", "d.T"},
	{"localalias.go", "UseLocalAlias", `"zzmod/d"`, "type LA = d.T\n\ntype LP = *d.T", "LA", "LP", "LA"},
	{"thirdalias.go", "UseThirdAlias", `"zzmod/al"`, ``, "al.DT", "al.PT", "al.DT"},
	{"chained.go", "UseChained", `"zzmod/al2"`, ``, "al2.Chain", "al2.ChainP", "al2.Chain"},
	{"otherfile.go", "UseOtherFile", `_ "zzmod/d"`, ``, "FarAlias", "FarPtr", "FarAlias"},
}

// ZZC13Spelling: the same statements, with the annotated type written directly, through a renamed import,
// parenthesised, through a local alias, through an alias declared in a third package, through an alias of that alias declared in a fourth package, and through an alias declared in another file of the same package (one file each):
// every file receives the same codes on the same lines.
func ZZC13Spelling() {
	annT := nd.EnumPad("annT", " @immutable", " @constructor NewT", " @testonly", " @packageonly w", " plain")
	holes := []nd.Hole{{"annT", annT}}
	files := []nd.File{{Pkg: "zzmod/d", Name: "d.go", Src: c13SrcD}, {Pkg: "zzmod/al", Name: "al.go", Src: c13SrcAl}, {Pkg: "zzmod/al2", Name: "al2.go", Src: c13SrcAl2}, {Pkg: "zzmod/u", Name: "aliasdecls.go", Src: c13SrcDecls}}
	for _, v := range c13Variants {
		files = append(files, nd.File{Pkg: "zzmod/u", Name: v.file, Src: c13Src(v)})
	}
	for _, v := range c13Onlys {
		files = append(files, nd.File{Pkg: "zzmod/u", Name: v.file, Src: c13OnlySrc(v)})
	}
	comps := []struct{ file, src, marker string }{
		{"comp_direct.go", c13SrcCompDirect, "COMP-DIRECT-SLICE"}, {"comp_directm.go", c13SrcCompDirectM, "COMP-DIRECT-MAP"},
		{"comp_alias.go", c13SrcCompAlias, "COMP-ALIAS-SLICE"}, {"comp_aliasm.go", c13SrcCompAliasM, "COMP-ALIAS-MAP"}}
	for _, c := range comps {
		files = append(files, nd.File{Pkg: "zzmod/u", Name: c.file, Src: c.src})
	}
	prog := nd.LoadProgram(files, holes)
	cfg := config.Default()
	rd := Analyze(prog, cfg, "zzmod/d", Facts{}, "imm", "ctor", "tonl", "pkgo")
	ral := Analyze(prog, cfg, "zzmod/al", Facts{"zzmod/d": &rd.Ann}, "imm")
	ral2 := Analyze(prog, cfg, "zzmod/al2", Facts{"zzmod/al": &ral.Ann}, "imm")
	ru := Analyze(prog, cfg, "zzmod/u", Facts{"zzmod/d": &rd.Ann, "zzmod/al": &ral.Ann, "zzmod/al2": &ral2.Ann}, "imm", "ctor", "tonl", "pkgo")

	imm := nd.HasPrefix(annT, " @immutable")
	ctor := nd.HasPrefix(annT, " @constructor")
	tonl := nd.HasPrefix(annT, " @testonly")
	pkgo := nd.HasPrefix(annT, " @packageonly")
	var exp []Expect
	for _, v := range c13Variants {
		src := c13Src(v)
		f := "/zz/zzmod/u/" + v.file
		nd.Known("C13/alias-spelling", nd.And(nd.Or(imm, ctor, tonl, pkgo), nd.Or(v.file == "localalias.go", v.file == "thirdalias.go", v.file == "chained.go", v.file == "otherfile.go")))
		exp = append(exp,
			Expect{f, nd.LineOf(src, "SITE-ASSIGN"), "IMM01", imm},
			Expect{f, nd.LineOf(src, "SITE-INCDEC"), "IMM03", imm},
			Expect{f, nd.LineOf(src, "SITE-PTRASSIGN"), "IMM01", imm},
			Expect{f, nd.LineOf(src, "SITE-LIT"), "CTOR01", ctor},
			Expect{f, nd.LineOf(src, "SITE-PTRLIT"), "CTOR01", ctor},
			Expect{f, nd.LineOf(src, "SITE-NEW"), "CTOR02", ctor},
			Expect{f, nd.LineOf(src, "SITE-VAR"), "CTOR03", ctor},
		)
		// once-per-file codes: the first use of the type in each file is the parameter list
		firstRef := "func " + v.fn
		if v.file == "localalias.go" {
			firstRef = "type LA = d.T" // the alias declaration is itself the first reference to d.T in that file
		}
		exp = append(exp,
			Expect{f, nd.LineOf(src, "func "+v.fn), "TONL01", tonl},
			Expect{f, nd.LineOf(src, firstRef), "PKGO01", pkgo},
		)
	}
	for _, v := range c13Onlys {
		src := c13OnlySrc(v)
		f := "/zz/zzmod/u/" + v.file
		exp = append(exp,
			Expect{f, nd.LineOf(src, "ONLY-PARAM"), "TONL01", tonl},
			Expect{f, nd.LineOf(src, "ONLY-PARAM"), "PKGO01", pkgo},
			Expect{f, nd.LineOf(src, "ONLY-ASSIGN"), "IMM01", imm},
		)
	}
	for _, c := range comps {
		f := "/zz/zzmod/u/" + c.file
		exp = append(exp,
			Expect{f, nd.LineOf(c.src, c.marker), "TONL01", tonl},
			Expect{f, nd.LineOf(c.src, c.marker), "PKGO01", pkgo},
		)
	}
	// the file that only declares the aliases references d.T there: PKGO01 once for that file
	exp = append(exp, Expect{"/zz/zzmod/u/aliasdecls.go", nd.LineOf(c13SrcDecls, "type FarAlias = d.T"), "PKGO01", pkgo})
	CheckExact(ru.Diags, exp, "C13 spelling of the type at the use site")
}
