// Package zzh: shared helpers for the program-skeleton (L1) harnesses. It drives the repository's
// readers and checkers through their exported entry points exactly like analyzer.run* does, on an
// analysis.Pass whose Files come from nd.LoadProgram.
package zzh

import (
	"errors"
	"go/ast"
	"go/token"
	"go/types"
	"strings"

	"golang.org/x/tools/go/analysis"

	"github.com/a14e/gogreement/src/annotations"
	"github.com/a14e/gogreement/src/config"
	"github.com/a14e/gogreement/src/constructor"
	"github.com/a14e/gogreement/src/ignore"
	"github.com/a14e/gogreement/src/immutable"
	"github.com/a14e/gogreement/src/implements"
	"github.com/a14e/gogreement/src/packageonly"
	"github.com/a14e/gogreement/src/testonly"
	"github.com/a14e/gogreement/src/util"
	"github.com/a14e/gogreement/src/zzverif/nd"
)

// Facts: annotations exported by already analysed packages, keyed by import path (the in-process stand-in
// for go/analysis package facts).
type Facts map[string]*annotations.PackageAnnotations

type Diag struct {
	File string
	Line int
	Col  int
	Pos  token.Pos
	Code string
	Msg  string
}

type Result struct {
	Ann    annotations.PackageAnnotations
	Ignore *util.IgnoreSet
	Diags  []Diag
}

var allCodes = []string{"IMM01", "IMM02", "IMM03", "IMM04", "CTOR01", "CTOR02", "CTOR03", "TONL01", "TONL02", "TONL03", "PKGO01", "PKGO02", "PKGO03", "IMPL01", "IMPL02", "IMPL03"}

// CodeOf extracts the code displayed by a rendered diagnostic ("error: [CODE] ...").
func CodeOf(msg string) string {
	for _, c := range allCodes {
		if strings.HasPrefix(msg, "error: ["+c+"] ") {
			return c
		}
	}
	return "?"
}

// NewPass builds the pass of one package. Diagnostics are appended to *out. File contents are withheld
// (messages without excerpt) unless NewPassSrc is used.
func NewPass(prog *nd.Prog, pkg string, facts Facts, out *[]analysis.Diagnostic) *analysis.Pass {
	return newPass(prog, pkg, facts, out, false)
}

func NewPassSrc(prog *nd.Prog, pkg string, facts Facts, out *[]analysis.Diagnostic) *analysis.Pass {
	return newPass(prog, pkg, facts, out, true)
}

// ReverseFiles makes the passes hand the files of a package to the analyzers in reverse order: go/packages parses the files
// of a package concurrently, so the order of Pass.Files need not be the order of their positions in the FileSet.
var ReverseFiles bool

func passFiles(prog *nd.Prog, pkg string) []*ast.File {
	files := prog.Files(pkg)
	if !ReverseFiles {
		return files
	}
	var rev []*ast.File
	for i := len(files) - 1; i >= 0; i-- {
		rev = append(rev, files[i])
	}
	return rev
}

func newPass(prog *nd.Prog, pkg string, facts Facts, out *[]analysis.Diagnostic, withSrc bool) *analysis.Pass {
	return &analysis.Pass{
		Fset:      prog.Fset(),
		Files:     passFiles(prog, pkg),
		Pkg:       prog.Pkg(pkg),
		TypesInfo: prog.Info(pkg),
		Report: func(d analysis.Diagnostic) {
			*out = append(*out, d)
		},
		ReadFile: func(name string) ([]byte, error) {
			if withSrc {
				if src, ok := prog.Source(name); ok {
					return []byte(src), nil
				}
			}
			return nil, errors.New("zzh: file contents withheld (message without excerpt)")
		},
		ImportPackageFact: func(p *types.Package, fact analysis.Fact) bool {
			a, ok := facts[p.Path()]
			if !ok {
				return false
			}
			w, ok := fact.(annotations.AnnotationWrapper)
			if !ok {
				return false
			}
			*w.GetAnnotations() = *a
			return true
		},
		ExportPackageFact: func(fact analysis.Fact) {},
	}
}

// Analyze runs reader, ignore reader and the named checkers ("imm","ctor","tonl","pkgo") on one package.
func Analyze(prog *nd.Prog, cfg *config.Config, pkg string, facts Facts, checkers ...string) Result {
	return analyze(prog, cfg, pkg, facts, false, checkers...)
}

// AnalyzeSrc is Analyze with readable source files (messages carry excerpts).
func AnalyzeSrc(prog *nd.Prog, cfg *config.Config, pkg string, facts Facts, checkers ...string) Result {
	return analyze(prog, cfg, pkg, facts, true, checkers...)
}

func analyze(prog *nd.Prog, cfg *config.Config, pkg string, facts Facts, withSrc bool, checkers ...string) Result {
	var raw []analysis.Diagnostic
	pass := newPass(prog, pkg, facts, &raw, withSrc)
	ann := annotations.ReadAllAnnotations(cfg, pass)
	ign := ignore.ReadIgnoreAnnotations(cfg, pass)
	for _, c := range checkers {
		switch c {
		case "imm":
			v := immutable.CheckImmutable(cfg, pass, &ann)
			immutable.ReportViolations(pass, v, ign)
		case "ctor":
			v := constructor.CheckConstructor(cfg, pass, &ann)
			constructor.ReportViolations(pass, v, ign)
		case "tonl":
			v := testonly.CheckTestOnly(cfg, pass, &ann, ign)
			testonly.ReportViolations(pass, v)
		case "pkgo":
			v := packageonly.CheckPackageOnly(cfg, pass, &ann, ign)
			packageonly.ReportViolations(pass, v)
		case "impl":
			// as analyzer.runImplementsChecker
			if len(ann.ImplementsAnnotations) == 0 {
				break
			}
			interfaces := implements.LoadInterfaces(pass, ann.ToInterfaceQuery())
			tys := implements.LoadTypes(pass, ann.ToTypeQuery())
			mp := implements.FindMissingPackages(ann.ImplementsAnnotations)
			mi := implements.FindMissingInterfaces(ann.ImplementsAnnotations, interfaces)
			mm := implements.FindMissingMethods(ann.ImplementsAnnotations, interfaces, tys)
			implements.ReportProblems(pass, mp, mi, mm, ign)
		}
	}
	res := Result{Ann: ann, Ignore: ign}
	for _, d := range raw {
		p := pass.Fset.Position(d.Pos)
		res.Diags = append(res.Diags, Diag{File: p.Filename, Line: p.Line, Col: p.Column, Pos: d.Pos, Code: CodeOf(d.Message), Msg: d.Message})
	}
	return res
}

// Expect is one line of an oracle: a diagnostic with this code is expected on this line of this file iff Cond.
type Expect struct {
	File string
	Line int
	Code string
	Cond bool
}

// CheckExact asserts that the reported diagnostics are exactly the expected ones (per file/line/code).
func CheckExact(diags []Diag, exp []Expect, what string) {
	for _, e := range exp {
		found := false
		for _, d := range diags {
			if nd.And(d.Line == e.Line, d.Code == e.Code, d.File == e.File) {
				found = true
			}
		}
		nd.Assert(found == e.Cond, what+": diagnostic reported iff the oracle expects it")
	}
	for _, d := range diags {
		ok := false
		for _, e := range exp {
			if nd.And(d.Line == e.Line, d.Code == e.Code, d.File == e.File) {
				ok = true
			}
		}
		nd.Assert(ok, what+": no diagnostic outside the oracle's sites")
	}
}

func tokenPos(i int) token.Pos { return token.Pos(i) }
