package zzh

import (
	"github.com/a14e/gogreement/src/config"
	"github.com/a14e/gogreement/src/zzverif/nd"
)

const c03SrcD = `package d

//«annH»
type Helper struct {
	X int
}

//«annF»
func Mock() int { return 1 }

type S struct{}

//«annM»
func (s *S) Reset() {}

func (s *S) Keep() {}

func Plain() int { return 0 }

//«annFix»
func Fixture() {
	_ = Mock() // FIX-CALL
	_ = Helper{} // FIX-LIT
	(&S{}).Reset() // FIX-MCALL
}

var AfterFixture = Mock() // D-GLOBAL-AFTER-FIXTURE

type AfterFixtureHolder struct {
	h Helper // D-FIELD-AFTER-FIXTURE
}

//«annFixM»
func (s *S) FixtureMethod() {
	_ = Mock() // FIXM-CALL
}

var AfterFixtureMethod = Mock() // D-GLOBAL-AFTER-FIXM
`

const c03SrcProd = `package d

func Prod(s *S) {
	_ = Mock() // P-CALL
	s.Reset() // P-MCALL
	s.Keep() // P-KEEP
	_ = Plain() // P-PLAIN
	_ = Helper{X: 1} // P-LIT
	var h Helper // P-VAR
	_ = h
	f := s.Reset // P-MVALUE
	_ = f
	hd := holder{svc: s}
	hd.svc.Reset() // P-MCALL-FIELD
	newS().Reset() // P-MCALL-RESULT
	list := []*S{s}
	list[0].Reset() // P-MCALL-INDEX
	(s).Reset() // P-MCALL-PAREN
	(*s).Keep() // P-KEEP2
}

type holder struct {
	svc *S
}

func newS() *S { return &S{} }

type W struct {
	h Helper // P-FIELD
}

func Param(h Helper) { // P-PARAM
}
`

// ZZC03Same: uses inside the declaring package, in a regular or _test.go file, scan-tests on/off,
// enclosing @testonly function/method exempt.
func ZZC03Same() {
	annH := nd.EnumPad("annH", " @testonly", " plain")
	annF := nd.EnumPad("annF", " @testonly", " plain")
	annM := nd.EnumPad("annM", " @testonly", " plain")
	annFix := nd.EnumPad("annFix", " @testonly", " plain")
	annFixM := nd.EnumPad("annFixM", " @testonly", " plain")
	fname := nd.Enum("fname", "prod.go", "prod_test.go", "my_test.go.go", "prod_Test.go", "prod_TEST.GO")
	scan := nd.Bool("scan_tests")
	holes := []nd.Hole{{"annH", annH}, {"annF", annF}, {"annM", annM}, {"annFix", annFix}, {"annFixM", annFixM}, {"fname", fname}}
	files := []nd.File{{Pkg: "zzmod/d", Name: "d.go", Src: c03SrcD}, {Pkg: "zzmod/d", Name: "«fname»", Src: c03SrcProd}}
	prog := nd.LoadProgram(files, holes)
	cfg := config.New(scan, []string{"testdata"}, []string{})
	res := Analyze(prog, cfg, "zzmod/d", Facts{}, "tonl")

	tH := nd.HasPrefix(annH, " @testonly")
	tF := nd.HasPrefix(annF, " @testonly")
	tM := nd.HasPrefix(annM, " @testonly")
	fix := nd.HasPrefix(annFix, " @testonly")
	fixM := nd.HasPrefix(annFixM, " @testonly")
	isTest := fname == "prod_test.go"
	prod := nd.Not(isTest)
	fd := "/zz/zzmod/d/d.go"
	fp := "/zz/zzmod/d/" + fname
	src := c03SrcProd
	exp := []Expect{
		{fd, nd.LineOf(c03SrcD, "FIX-CALL"), "TONL02", nd.And(tF, nd.Not(fix))},
		{fd, nd.LineOf(c03SrcD, "FIX-LIT"), "TONL01", nd.And(tH, nd.Not(fix))},
		{fd, nd.LineOf(c03SrcD, "FIX-MCALL"), "TONL03", nd.And(tM, nd.Not(fix))},
		{fd, nd.LineOf(c03SrcD, "FIXM-CALL"), "TONL02", nd.And(tF, nd.Not(fixM))},
		// declarations that merely FOLLOW a @testonly function are not inside it
		{fd, nd.LineOf(c03SrcD, "D-GLOBAL-AFTER-FIXTURE"), "TONL02", tF},
		{fd, nd.LineOf(c03SrcD, "D-GLOBAL-AFTER-FIXM"), "TONL02", tF},
		// first use of Helper in d.go that is not inside Fixture: FIX-LIT if Fixture is not @testonly, else the field below
		{fd, nd.LineOf(c03SrcD, "D-FIELD-AFTER-FIXTURE"), "TONL01", nd.And(tH, fix)},
		{fp, nd.LineOf(src, "P-CALL"), "TONL02", nd.And(tF, prod)},
		{fp, nd.LineOf(src, "P-MCALL"), "TONL03", nd.And(tM, prod)},
		{fp, nd.LineOf(src, "P-MCALL-FIELD"), "TONL03", nd.And(tM, prod)},
		{fp, nd.LineOf(src, "P-MCALL-RESULT"), "TONL03", nd.And(tM, prod)},
		{fp, nd.LineOf(src, "P-MCALL-INDEX"), "TONL03", nd.And(tM, prod)},
		{fp, nd.LineOf(src, "P-MCALL-PAREN"), "TONL03", nd.And(tM, prod)},
		{fp, nd.LineOf(src, "P-LIT"), "TONL01", nd.And(tH, prod)}, // first use of Helper in this file
	}
	CheckExact(res.Diags, exp, "C03 same package")
}

const c03SrcShadow = `package d

//«annF»
func Mock() int { return 1 }

func Shadow() int {
	Mock := func() int { return 2 }
	return Mock() // SH-LOCAL
}

func Param(Mock func() int) int {
	return Mock() // SH-PARAM
}

func Real() int {
	return Mock() // SH-REAL
}
`

// ZZC03Shadow: identifiers that merely share the name of a @testonly function are never reported.
func ZZC03Shadow() {
	annF := nd.EnumPad("annF", " @testonly", " plain")
	holes := []nd.Hole{{"annF", annF}}
	files := []nd.File{{Pkg: "zzmod/d", Name: "d.go", Src: c03SrcShadow}}
	prog := nd.LoadProgram(files, holes)
	res := Analyze(prog, config.Default(), "zzmod/d", Facts{}, "tonl")
	tF := nd.HasPrefix(annF, " @testonly")
	CheckExact(res.Diags, []Expect{
		{"/zz/zzmod/d/d.go", nd.LineOf(c03SrcShadow, "SH-REAL"), "TONL02", tF},
	}, "C03 shadowing identifiers")
}

const c03SrcU = `package u

import "zzmod/d"

type Local struct{}

func (l *Local) Reset() {}

func Mock() int { return 3 }

func Use(s *d.S, l *Local) {
	_ = d.Mock() // U-CALL
	s.Reset() // U-MCALL
	l.Reset() // U-LOCALM
	_ = Mock() // U-LOCALF
	_ = d.Plain() // U-PLAIN
	var v d.Helper // U-VAR
	_ = v
	_ = d.Helper{} // U-LIT
	_ = &d.Helper{X: 2} // U-LIT2
}

type Holder struct {
	h *d.Helper // U-FIELD
}

func Sig(h d.Helper) *d.Helper { // U-SIG
	return nil
}
`

// ZZC03Cross: uses in a directly importing package; same-named local items are not the imported ones.
func ZZC03Cross() {
	annH := nd.EnumPad("annH", " @testonly", " plain")
	annF := nd.EnumPad("annF", " @testonly", " plain")
	annM := nd.EnumPad("annM", " @testonly", " plain")
	holes := []nd.Hole{{"annH", annH}, {"annF", annF}, {"annM", annM}, {"annFix", " plain"}, {"annFixM", " plain"}}
	files := []nd.File{{Pkg: "zzmod/d", Name: "d.go", Src: c03SrcD}, {Pkg: "zzmod/u", Name: "u.go", Src: c03SrcU}}
	prog := nd.LoadProgram(files, holes)
	cfg := config.Default()
	rd := Analyze(prog, cfg, "zzmod/d", Facts{}, "tonl")
	ru := Analyze(prog, cfg, "zzmod/u", Facts{"zzmod/d": &rd.Ann}, "tonl")
	tH := nd.HasPrefix(annH, " @testonly")
	tF := nd.HasPrefix(annF, " @testonly")
	tM := nd.HasPrefix(annM, " @testonly")
	fu := "/zz/zzmod/u/u.go"
	CheckExact(ru.Diags, []Expect{
		{fu, nd.LineOf(c03SrcU, "U-CALL"), "TONL02", tF},
		{fu, nd.LineOf(c03SrcU, "U-MCALL"), "TONL03", tM},
		{fu, nd.LineOf(c03SrcU, "U-VAR"), "TONL01", tH}, // first use of d.Helper in the file
	}, "C03 importing package")
}

const c03SrcD1 = `package d1

//«ann1»
type Helper struct{}
`
const c03SrcD2 = `package d2

//«ann2»
type Helper struct{}
`
const c03SrcU2 = `package u

import (
	"zzmod/d1"
	"zzmod/d2"
)

func Use() {
	_ = d1.Helper{} // U-ONE
	_ = d2.Helper{} // U-TWO
	_ = d1.Helper{} // U-ONE-AGAIN
}
`

// ZZC03TwoPkgs: "once per file and type": same-named types of two packages are two types.
func ZZC03TwoPkgs() {
	ann1 := nd.EnumPad("ann1", " @testonly", " plain")
	ann2 := nd.EnumPad("ann2", " @testonly", " plain")
	holes := []nd.Hole{{"ann1", ann1}, {"ann2", ann2}}
	files := []nd.File{{Pkg: "zzmod/d1", Name: "d.go", Src: c03SrcD1}, {Pkg: "zzmod/d2", Name: "d.go", Src: c03SrcD2}, {Pkg: "zzmod/u", Name: "u.go", Src: c03SrcU2}}
	prog := nd.LoadProgram(files, holes)
	cfg := config.Default()
	r1 := Analyze(prog, cfg, "zzmod/d1", Facts{}, "tonl")
	r2 := Analyze(prog, cfg, "zzmod/d2", Facts{}, "tonl")
	ru := Analyze(prog, cfg, "zzmod/u", Facts{"zzmod/d1": &r1.Ann, "zzmod/d2": &r2.Ann}, "tonl")
	t1 := nd.HasPrefix(ann1, " @testonly")
	t2 := nd.HasPrefix(ann2, " @testonly")
	fu := "/zz/zzmod/u/u.go"
	CheckExact(ru.Diags, []Expect{
		{fu, nd.LineOf(c03SrcU2, "U-ONE"), "TONL01", t1},
		{fu, nd.LineOf(c03SrcU2, "U-TWO"), "TONL01", t2},
	}, "C03 two packages with a same-named type")
}

const c03SrcED = `package d

//«annH»
type Helper struct {
	X int
}

//«annK»
type HelperID string

//«annF»
func Mock() int { return 1 }

//«annW»
func Wrap(x int) int { return x }

// @testonly
func Take(v interface{}) {}

type S struct{}

//«annM»
func (s *S) Reset() {}

// the same annotation on a method whose receiver type is spelled through an alias, in parentheses
type SA = S

//«annM»
func (s *(SA)) Reset2() {
	s.Reset() // E-ALIASRECV-BODY
}

// an unannotated method of an unnamed interface type that shares the method's name
var Resetter interface{ Reset2() }

// a method of the @testonly type itself, carrying the method annotation
//«annM»
func (h Helper) Get() int { return h.X }

type Outer struct {
	S
}

// a defined container type that is not itself @testonly
type HL []*Helper

// an ALIAS of a composite type that contains the @testonly type
type HelperList = []Helper

type Q struct{}

// an unannotated METHOD that shares the name of the function Mock
func (q *Q) Mock() int {
	return Mock() // E-NAMESAKE-METHOD-BODY
}

// an unannotated FUNCTION that shares the name of the method (*S).Reset
func Reset(s *S) {
	s.Reset() // E-NAMESAKE-FUNC-BODY
}
`

const c03SrcE1 = `package d

func Edge(s *S, o *Outer) {
	_ = Wrap( // E-NEST-OUTER
		Mock()) // E-NEST-INNER
	Take( // E-NEST-TAKE
		Helper{X: Mock()}) // E-NEST-LIT
	_ = (Mock)() // E-PAREN-CALL
	(s.Reset)() // E-PAREN-MCALL
	o.Reset() // E-PROMOTED
	o.S.Reset() // E-EXPLICIT
	(*S).Reset(s) // E-MEXPR
	(*Outer).Reset(o) // E-MEXPR-PROMOTED
	s.Reset2() // E-ALIASRECV-CALL
	Resetter.Reset2() // E-IFACE-NAMESAKE
}
`

const c03SrcE2 = `package d

var list = []*Helper{{X: 1}} // E2-ELIDED-PTR
`

const c03SrcE2b = `package d

var tab = map[string]Helper{"k": {X: 2}} // E2B-ELIDED-MAP
`

// the @testonly type as an element / variadic type: each form is the only use in its file
const c03SrcE4 = `package d

func Variadic(hs ...Helper) {} // E4-VARIADIC
`

const c03SrcE5 = `package d

var list5 []Helper // E5-SLICE-VAR
`

const c03SrcE6 = `package d

type Registry struct {
	m map[string]*Helper // E6-MAP-FIELD
}
`

const c03SrcE7 = `package d

var list7 = []Helper{} // E7-SLICE-LIT
`

const c03SrcE8 = `package d

func Results() (out [2]Helper, ch chan Helper) { return } // E8-ARRAY-RESULT
`

const c03SrcE9 = `package d

var list9 = HL{{X: 1}} // E9-DEFINED-CONTAINER
`

const c03SrcE10 = `package d

var l10 HelperList // E10-ALIAS-OF-COMPOSITE
`

// a @testonly defined type with a BASIC underlying type that occurs only as a map key
const c03SrcE13 = `package d

var byID map[HelperID]int // E13-BASIC-MAPKEY
`

const c03SrcE11 = `package d

var m11 map[string]HelperList // E11-NESTED-ALIAS-OF-COMPOSITE
`

// a user package WITHOUT @testonly items of its own: v1.go imports d, v2.go imports nothing and reaches d's items through v1.go
const c03SrcV1 = `package v

import "zzmod/d"

func Open() *d.S { return nil }

type Frames []d.Helper // V1-FRAMES
`

const c03SrcV2 = `package v

func Use2() {
	Open().Reset() // V2-MCALL
	_ = Frames{{X: 1}} // V2-LIT
}
`

// two diagnostics with different codes at the SAME position: the literal and the method call both start at "Helper"
const c03SrcE12 = `package d

func SamePos() int {
	return Helper{X: 1}.Get() // E12-SAMEPOS
}
`

const c03SrcE3 = `package d

func Local() int {
	type Helper struct{ X int }
	var h Helper // E3-LOCAL-VAR
	g := Helper{X: 2} // E3-LOCAL-LIT
	return h.X + g.X
}
`

const c03SrcEU = `package u

import . "zzmod/d"

func Use(s *S) {
	_ = Mock() // U-DOT-CALL
	s.Reset() // U-DOT-MCALL
	_ = Helper{} // U-DOT-LIT
}
`

// ZZC03Edge: uses nested inside an already reported call, a method named like a @testonly function (and vice versa),
// parenthesised callees, a method promoted through embedding, elided composite literals as the only use in a file, a
// function-local type that shares the @testonly type's name, and a dot-importing package.
func ZZC03Edge() {
	annH := nd.EnumPad("annH", " @testonly", " plain")
	annF := nd.EnumPad("annF", " @testonly", " plain")
	annW := nd.EnumPad("annW", " @testonly", " plain")
	annM := nd.EnumPad("annM", " @testonly", " plain")
	annK := nd.EnumPad("annK", " @testonly", " plain")
	holes := []nd.Hole{{"annH", annH}, {"annF", annF}, {"annW", annW}, {"annM", annM}, {"annK", annK}}
	files := []nd.File{{Pkg: "zzmod/d", Name: "d.go", Src: c03SrcED}, {Pkg: "zzmod/d", Name: "e13.go", Src: c03SrcE13}, {Pkg: "zzmod/d", Name: "e1.go", Src: c03SrcE1}, {Pkg: "zzmod/d", Name: "e2.go", Src: c03SrcE2},
		{Pkg: "zzmod/d", Name: "e2b.go", Src: c03SrcE2b}, {Pkg: "zzmod/d", Name: "e3.go", Src: c03SrcE3}, {Pkg: "zzmod/u", Name: "u.go", Src: c03SrcEU},
		{Pkg: "zzmod/d", Name: "e4.go", Src: c03SrcE4}, {Pkg: "zzmod/d", Name: "e5.go", Src: c03SrcE5}, {Pkg: "zzmod/d", Name: "e6.go", Src: c03SrcE6}, {Pkg: "zzmod/d", Name: "e7.go", Src: c03SrcE7}, {Pkg: "zzmod/d", Name: "e8.go", Src: c03SrcE8}, {Pkg: "zzmod/d", Name: "e9.go", Src: c03SrcE9},
		{Pkg: "zzmod/d", Name: "e10.go", Src: c03SrcE10}, {Pkg: "zzmod/d", Name: "e11.go", Src: c03SrcE11}, {Pkg: "zzmod/d", Name: "e12.go", Src: c03SrcE12}, {Pkg: "zzmod/v", Name: "v1.go", Src: c03SrcV1}, {Pkg: "zzmod/v", Name: "v2.go", Src: c03SrcV2}}
	prog := nd.LoadProgram(files, holes)
	cfg := config.Default()
	rd := Analyze(prog, cfg, "zzmod/d", Facts{}, "tonl")
	ru := Analyze(prog, cfg, "zzmod/u", Facts{"zzmod/d": &rd.Ann}, "tonl")
	tH := nd.HasPrefix(annH, " @testonly")
	tF := nd.HasPrefix(annF, " @testonly")
	tW := nd.HasPrefix(annW, " @testonly")
	tM := nd.HasPrefix(annM, " @testonly")
	fd, f1, f2, f2b, fu := "/zz/zzmod/d/d.go", "/zz/zzmod/d/e1.go", "/zz/zzmod/d/e2.go", "/zz/zzmod/d/e2b.go", "/zz/zzmod/u/u.go"
	// the receiver of Helper's own method mentions the @testonly type inside the declaring package's non-test file: whether
	// that is a "use" is not said by the property — left open by dropping that line
	var rdDiags []Diag
	for _, d := range rd.Diags {
		if !(d.File == fd && d.Line == nd.LineOf(c03SrcED, "func (h Helper) Get")) {
			rdDiags = append(rdDiags, d)
		}
	}
	CheckExact(rdDiags, []Expect{
		{fd, nd.LineOf(c03SrcED, "E-NAMESAKE-METHOD-BODY"), "TONL02", tF},
		{fd, nd.LineOf(c03SrcED, "E-NAMESAKE-FUNC-BODY"), "TONL03", tM},
		{f1, nd.LineOf(c03SrcE1, "E-NEST-OUTER"), "TONL02", tW},
		{f1, nd.LineOf(c03SrcE1, "E-NEST-INNER"), "TONL02", tF},
		{f1, nd.LineOf(c03SrcE1, "E-NEST-TAKE"), "TONL02", true},
		{f1, nd.LineOf(c03SrcE1, "E-NEST-LIT"), "TONL01", tH},
		{f1, nd.LineOf(c03SrcE1, "E-NEST-LIT"), "TONL02", tF},
		{f1, nd.LineOf(c03SrcE1, "E-PAREN-CALL"), "TONL02", tF},
		{f1, nd.LineOf(c03SrcE1, "E-PAREN-MCALL"), "TONL03", tM},
		{f1, nd.LineOf(c03SrcE1, "E-PROMOTED"), "TONL03", tM},
		{f1, nd.LineOf(c03SrcE1, "E-EXPLICIT"), "TONL03", tM},
		{f1, nd.LineOf(c03SrcE1, "E-MEXPR"), "TONL03", tM},
		{f1, nd.LineOf(c03SrcE1, "E-MEXPR-PROMOTED"), "TONL03", tM},
		{f1, nd.LineOf(c03SrcE1, "E-ALIASRECV-CALL"), "TONL03", tM},
		// E-ALIASRECV-BODY: nothing (Reset2 carries the same annotation as Reset); E-IFACE-NAMESAKE: nothing
		// the type used as variadic / element type of a parameter, variable, field, literal, result
		{"/zz/zzmod/d/e4.go", nd.LineOf(c03SrcE4, "E4-VARIADIC"), "TONL01", tH},
		{"/zz/zzmod/d/e5.go", nd.LineOf(c03SrcE5, "E5-SLICE-VAR"), "TONL01", tH},
		{"/zz/zzmod/d/e6.go", nd.LineOf(c03SrcE6, "E6-MAP-FIELD"), "TONL01", tH},
		{"/zz/zzmod/d/e7.go", nd.LineOf(c03SrcE7, "E7-SLICE-LIT"), "TONL01", tH},
		{"/zz/zzmod/d/e8.go", nd.LineOf(c03SrcE8, "E8-ARRAY-RESULT"), "TONL01", tH},
		// elided elements under a defined container type: only the elided literal itself is a use of Helper
		{"/zz/zzmod/d/e9.go", nd.LineOf(c03SrcE9, "E9-DEFINED-CONTAINER"), "TONL01", tH},
		// through an alias of a composite type, also nested inside another composite type (C13)
		{"/zz/zzmod/d/e10.go", nd.LineOf(c03SrcE10, "E10-ALIAS-OF-COMPOSITE"), "TONL01", tH},
		{"/zz/zzmod/d/e11.go", nd.LineOf(c03SrcE11, "E11-NESTED-ALIAS-OF-COMPOSITE"), "TONL01", tH},
		{"/zz/zzmod/d/e13.go", nd.LineOf(c03SrcE13, "E13-BASIC-MAPKEY"), "TONL01", nd.HasPrefix(annK, " @testonly")},
		{"/zz/zzmod/d/e12.go", nd.LineOf(c03SrcE12, "E12-SAMEPOS"), "TONL01", tH},
		{"/zz/zzmod/d/e12.go", nd.LineOf(c03SrcE12, "E12-SAMEPOS"), "TONL03", tM},
		{f2, nd.LineOf(c03SrcE2, "E2-ELIDED-PTR"), "TONL01", tH},
		{f2b, nd.LineOf(c03SrcE2b, "E2B-ELIDED-MAP"), "TONL01", tH},
		// e3.go: the only Helper there is a function-local type: nothing
	}, "C03 edge forms, declaring package")
	rv := Analyze(prog, cfg, "zzmod/v", Facts{"zzmod/d": &rd.Ann}, "tonl")
	CheckExact(rv.Diags, []Expect{
		{"/zz/zzmod/v/v2.go", nd.LineOf(c03SrcV2, "V2-MCALL"), "TONL03", tM},
		{"/zz/zzmod/v/v2.go", nd.LineOf(c03SrcV2, "V2-LIT"), "TONL01", tH},
	}, "C03 edge forms, a file without imports in a package without @testonly items of its own")
	CheckExact(ru.Diags, []Expect{
		{fu, nd.LineOf(c03SrcEU, "U-DOT-CALL"), "TONL02", tF},
		{fu, nd.LineOf(c03SrcEU, "U-DOT-MCALL"), "TONL03", tM},
		{fu, nd.LineOf(c03SrcEU, "U-DOT-LIT"), "TONL01", tH},
	}, "C03 edge forms, dot-importing package")
}
