package zzh

import (
	"github.com/a14e/gogreement/src/config"
	"github.com/a14e/gogreement/src/zzverif/nd"
)

const c03SrcD = `package d

//«annH»
type Helper struct {
	X int
}

//«annF»
func Mock() int { return 1 }

type S struct{}

//«annM»
func (s *S) Reset() {}

func (s *S) Keep() {}

func Plain() int { return 0 }

//«annFix»
func Fixture() {
	_ = Mock() // FIX-CALL
	_ = Helper{} // FIX-LIT
	(&S{}).Reset() // FIX-MCALL
}

var AfterFixture = Mock() // D-GLOBAL-AFTER-FIXTURE

type AfterFixtureHolder struct {
	h Helper // D-FIELD-AFTER-FIXTURE
}

//«annFixM»
func (s *S) FixtureMethod() {
	_ = Mock() // FIXM-CALL
}

var AfterFixtureMethod = Mock() // D-GLOBAL-AFTER-FIXM
`

const c03SrcProd = `package d

func Prod(s *S) {
	_ = Mock() // P-CALL
	s.Reset() // P-MCALL
	s.Keep() // P-KEEP
	_ = Plain() // P-PLAIN
	_ = Helper{X: 1} // P-LIT
	var h Helper // P-VAR
	_ = h
	f := s.Reset // P-MVALUE
	_ = f
	hd := holder{svc: s}
	hd.svc.Reset() // P-MCALL-FIELD
	newS().Reset() // P-MCALL-RESULT
	list := []*S{s}
	list[0].Reset() // P-MCALL-INDEX
	(s).Reset() // P-MCALL-PAREN
	(*s).Keep() // P-KEEP2
}

type holder struct {
	svc *S
}

func newS() *S { return &S{} }

type W struct {
	h Helper // P-FIELD
}

func Param(h Helper) { // P-PARAM
}
`

// ZZC03Same: uses inside the declaring package, in a regular or _test.go file, scan-tests on/off,
// enclosing @testonly function/method exempt.
func ZZC03Same() {
	annH := nd.EnumPad("annH", " @testonly", " plain")
	annF := nd.EnumPad("annF", " @testonly", " plain")
	annM := nd.EnumPad("annM", " @testonly", " plain")
	annFix := nd.EnumPad("annFix", " @testonly", " plain")
	annFixM := nd.EnumPad("annFixM", " @testonly", " plain")
	fname := nd.Enum("fname", "prod.go", "prod_test.go", "my_test.go.go", "prod_Test.go", "prod_TEST.GO")
	scan := nd.Bool("scan_tests")
	holes := []nd.Hole{{"annH", annH}, {"annF", annF}, {"annM", annM}, {"annFix", annFix}, {"annFixM", annFixM}, {"fname", fname}}
	files := []nd.File{{Pkg: "zzmod/d", Name: "d.go", Src: c03SrcD}, {Pkg: "zzmod/d", Name: "«fname»", Src: c03SrcProd}}
	prog := nd.LoadProgram(files, holes)
	cfg := config.New(scan, []string{"testdata"}, []string{})
	res := Analyze(prog, cfg, "zzmod/d", Facts{}, "tonl")

	tH := nd.HasPrefix(annH, " @testonly")
	tF := nd.HasPrefix(annF, " @testonly")
	tM := nd.HasPrefix(annM, " @testonly")
	fix := nd.HasPrefix(annFix, " @testonly")
	fixM := nd.HasPrefix(annFixM, " @testonly")
	isTest := fname == "prod_test.go"
	prod := nd.Not(isTest)
	fd := "/zz/zzmod/d/d.go"
	fp := "/zz/zzmod/d/" + fname
	src := c03SrcProd
	exp := []Expect{
		{fd, nd.LineOf(c03SrcD, "FIX-CALL"), "TONL02", nd.And(tF, nd.Not(fix))},
		{fd, nd.LineOf(c03SrcD, "FIX-LIT"), "TONL01", nd.And(tH, nd.Not(fix))},
		{fd, nd.LineOf(c03SrcD, "FIX-MCALL"), "TONL03", nd.And(tM, nd.Not(fix))},
		{fd, nd.LineOf(c03SrcD, "FIXM-CALL"), "TONL02", nd.And(tF, nd.Not(fixM))},
		// declarations that merely FOLLOW a @testonly function are not inside it
		{fd, nd.LineOf(c03SrcD, "D-GLOBAL-AFTER-FIXTURE"), "TONL02", tF},
		{fd, nd.LineOf(c03SrcD, "D-GLOBAL-AFTER-FIXM"), "TONL02", tF},
		// first use of Helper in d.go that is not inside Fixture: FIX-LIT if Fixture is not @testonly, else the field below
		{fd, nd.LineOf(c03SrcD, "D-FIELD-AFTER-FIXTURE"), "TONL01", nd.And(tH, fix)},
		{fp, nd.LineOf(src, "P-CALL"), "TONL02", nd.And(tF, prod)},
		{fp, nd.LineOf(src, "P-MCALL"), "TONL03", nd.And(tM, prod)},
		{fp, nd.LineOf(src, "P-MCALL-FIELD"), "TONL03", nd.And(tM, prod)},
		{fp, nd.LineOf(src, "P-MCALL-RESULT"), "TONL03", nd.And(tM, prod)},
		{fp, nd.LineOf(src, "P-MCALL-INDEX"), "TONL03", nd.And(tM, prod)},
		{fp, nd.LineOf(src, "P-MCALL-PAREN"), "TONL03", nd.And(tM, prod)},
		{fp, nd.LineOf(src, "P-LIT"), "TONL01", nd.And(tH, prod)}, // first use of Helper in this file
	}
	CheckExact(res.Diags, exp, "C03 same package")
}

const c03SrcShadow = `package d

//«annF»
func Mock() int { return 1 }

func Shadow() int {
	Mock := func() int { return 2 }
	return Mock() // SH-LOCAL
}

func Param(Mock func() int) int {
	return Mock() // SH-PARAM
}

func Real() int {
	return Mock() // SH-REAL
}
`

// ZZC03Shadow: identifiers that merely share the name of a @testonly function are never reported.
func ZZC03Shadow() {
	annF := nd.EnumPad("annF", " @testonly", " plain")
	holes := []nd.Hole{{"annF", annF}}
	files := []nd.File{{Pkg: "zzmod/d", Name: "d.go", Src: c03SrcShadow}}
	prog := nd.LoadProgram(files, holes)
	res := Analyze(prog, config.Default(), "zzmod/d", Facts{}, "tonl")
	tF := nd.HasPrefix(annF, " @testonly")
	nd.Known("C03/ident-shadow", tF)
	CheckExact(res.Diags, []Expect{
		{"/zz/zzmod/d/d.go", nd.LineOf(c03SrcShadow, "SH-REAL"), "TONL02", tF},
	}, "C03 shadowing identifiers")
}

const c03SrcU = `package u

import "zzmod/d"

type Local struct{}

func (l *Local) Reset() {}

func Mock() int { return 3 }

func Use(s *d.S, l *Local) {
	_ = d.Mock() // U-CALL
	s.Reset() // U-MCALL
	l.Reset() // U-LOCALM
	_ = Mock() // U-LOCALF
	_ = d.Plain() // U-PLAIN
	var v d.Helper // U-VAR
	_ = v
	_ = d.Helper{} // U-LIT
	_ = &d.Helper{X: 2} // U-LIT2
}

type Holder struct {
	h *d.Helper // U-FIELD
}

func Sig(h d.Helper) *d.Helper { // U-SIG
	return nil
}
`

// ZZC03Cross: uses in a directly importing package; same-named local items are not the imported ones.
func ZZC03Cross() {
	annH := nd.EnumPad("annH", " @testonly", " plain")
	annF := nd.EnumPad("annF", " @testonly", " plain")
	annM := nd.EnumPad("annM", " @testonly", " plain")
	holes := []nd.Hole{{"annH", annH}, {"annF", annF}, {"annM", annM}, {"annFix", " plain"}, {"annFixM", " plain"}}
	files := []nd.File{{Pkg: "zzmod/d", Name: "d.go", Src: c03SrcD}, {Pkg: "zzmod/u", Name: "u.go", Src: c03SrcU}}
	prog := nd.LoadProgram(files, holes)
	cfg := config.Default()
	rd := Analyze(prog, cfg, "zzmod/d", Facts{}, "tonl")
	ru := Analyze(prog, cfg, "zzmod/u", Facts{"zzmod/d": &rd.Ann}, "tonl")
	tH := nd.HasPrefix(annH, " @testonly")
	tF := nd.HasPrefix(annF, " @testonly")
	tM := nd.HasPrefix(annM, " @testonly")
	fu := "/zz/zzmod/u/u.go"
	CheckExact(ru.Diags, []Expect{
		{fu, nd.LineOf(c03SrcU, "U-CALL"), "TONL02", tF},
		{fu, nd.LineOf(c03SrcU, "U-MCALL"), "TONL03", tM},
		{fu, nd.LineOf(c03SrcU, "U-VAR"), "TONL01", tH}, // first use of d.Helper in the file
	}, "C03 importing package")
}

const c03SrcD1 = `package d1

//«ann1»
type Helper struct{}
`
const c03SrcD2 = `package d2

//«ann2»
type Helper struct{}
`
const c03SrcU2 = `package u

import (
	"zzmod/d1"
	"zzmod/d2"
)

func Use() {
	_ = d1.Helper{} // U-ONE
	_ = d2.Helper{} // U-TWO
	_ = d1.Helper{} // U-ONE-AGAIN
}
`

// ZZC03TwoPkgs: "once per file and type": same-named types of two packages are two types.
func ZZC03TwoPkgs() {
	ann1 := nd.EnumPad("ann1", " @testonly", " plain")
	ann2 := nd.EnumPad("ann2", " @testonly", " plain")
	holes := []nd.Hole{{"ann1", ann1}, {"ann2", ann2}}
	files := []nd.File{{Pkg: "zzmod/d1", Name: "d.go", Src: c03SrcD1}, {Pkg: "zzmod/d2", Name: "d.go", Src: c03SrcD2}, {Pkg: "zzmod/u", Name: "u.go", Src: c03SrcU2}}
	prog := nd.LoadProgram(files, holes)
	cfg := config.Default()
	r1 := Analyze(prog, cfg, "zzmod/d1", Facts{}, "tonl")
	r2 := Analyze(prog, cfg, "zzmod/d2", Facts{}, "tonl")
	ru := Analyze(prog, cfg, "zzmod/u", Facts{"zzmod/d1": &r1.Ann, "zzmod/d2": &r2.Ann}, "tonl")
	t1 := nd.HasPrefix(ann1, " @testonly")
	t2 := nd.HasPrefix(ann2, " @testonly")
	nd.Known("C03/dedup-by-bare-type-name", nd.And(t1, t2))
	fu := "/zz/zzmod/u/u.go"
	CheckExact(ru.Diags, []Expect{
		{fu, nd.LineOf(c03SrcU2, "U-ONE"), "TONL01", t1},
		{fu, nd.LineOf(c03SrcU2, "U-TWO"), "TONL01", t2},
	}, "C03 two packages with a same-named type")
}
