package zzh

import (
	"strings"

	"golang.org/x/tools/go/analysis"

	"github.com/a14e/gogreement/src/config"
	"github.com/a14e/gogreement/src/ignore"
	"github.com/a14e/gogreement/src/zzverif/nd"
)

// ZZC08Text: exclude-checks given as raw text (any case, blanks, empty items): a diagnostic with code c at any position
// is dropped iff some item, trimmed and upper-cased, is ALL, c's category or c.
func ZZC08Text() {
	s := nd.Str("exclude_checks", 9)
	nd.Assume(nd.CountByte(s, ',') <= 2)
	tokens := config.ZZParseStringList(s, true)
	cfg := config.New(false, []string{"testdata"}, tokens)
	prog := nd.LoadProgram([]nd.File{{Pkg: "zzmod/d", Name: "d.go", Src: "package d\n"}}, nil)
	var raw []analysis.Diagnostic
	pass := NewPass(prog, "zzmod/d", Facts{}, &raw)
	set := ignore.ReadIgnoreAnnotations(cfg, pass)
	code := nd.Enum("q_code", "IMM01", "IMM04", "CTOR02", "TONL03", "PKGO01", "IMPL02", "IMPL03")
	pos := nd.Int("q_pos")
	nd.Assume(0 <= pos)
	nd.Assume(pos <= 1<<31-1)
	// reference
	want := false
	if s != "" {
		for _, part := range strings.Split(s, ",") {
			t := strings.ToUpper(strings.TrimSpace(part))
			want = nd.Or(want, tokenExcludes(t, code))
		}
	}
	got := set.Contains(code, prog.PosOf("/zz/zzmod/d/d.go", 0)+0*0)
	got2 := set.Contains(code, tokenPos(pos))
	nd.Observe("got", got)
	nd.Assert(got == want, "excluded iff an item of S names ALL, the category or the code")
	nd.Assert(got2 == want, "exclusion is project-wide: independent of the position")
}
