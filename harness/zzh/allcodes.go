package zzh

import (
	"github.com/a14e/gogreement/src/config"
	"github.com/a14e/gogreement/src/zzverif/nd"
)

// A fixed two-package program that produces every IMM/CTOR/TONL/PKGO code in package u.
const allSrcD = `package d

// @immutable
// @constructor NewT
type T struct {
	F int
	S []int
}

func NewT() *T { return &T{} }

// @testonly
type Helper struct{}

// @testonly
func Mock() int { return 1 }

// @testonly
func (t *T) Reset() {}

// @packageonly w
type Guarded struct{}

// @packageonly w
func Only() {}

// @packageonly w
func (t *T) Hidden() {}
`

const allSrcU = `package u

import "zzmod/d"

func Use(t *d.T) {
	t.F = 1 // L-IMM01
	t.F += 2 // L-IMM02
	t.F++ // L-IMM03
	t.S[0] = 3 // L-IMM04
	_ = d.T{} // L-CTOR01
	_ = new(d.T) // L-CTOR02
	var z d.T // L-CTOR03
	// @ignore IMPL03
	_ = z
	_ = d.Helper{} // L-TONL01
	_ = d.Mock() // L-TONL02
	t.Reset() // L-TONL03
	_ = d.Guarded{} // L-PKGO01
	d.Only() // L-PKGO02
	t.Hidden() // L-PKGO03
	take(
		1,
		d.T{}, // L-CONT
	)
}

func take(int, d.T) {}

var (
	count int
	grouped d.T // L-GROUP
)

var last d.T // L-LAST`

type codeLine struct {
	code, needle string
}

var allCodeLines = []codeLine{
	{"IMM01", "L-IMM01"}, {"IMM02", "L-IMM02"}, {"IMM03", "L-IMM03"}, {"IMM04", "L-IMM04"},
	{"CTOR01", "L-CTOR01"}, {"CTOR02", "L-CTOR02"}, {"CTOR03", "L-CTOR03"},
	{"TONL01", "L-TONL01"}, {"TONL02", "L-TONL02"}, {"TONL03", "L-TONL03"},
	{"PKGO01", "L-PKGO01"}, {"PKGO02", "L-PKGO02"}, {"PKGO03", "L-PKGO03"},
	{"CTOR01", "L-CONT"},  // on a continuation line of a multi-line call
	{"CTOR03", "L-GROUP"}, // inside a var ( ... ) group: the diagnostic sits on the variable's own line
	{"CTOR03", "L-LAST"},  // on the last line of the file (no final newline)
}

func allCategory(code string) string {
	switch code[:3] {
	case "IMM":
		return "IMM"
	case "CTO":
		return "CTOR"
	case "TON":
		return "TONL"
	case "PKG":
		return "PKGO"
	case "IMP":
		return "IMPL"
	}
	return ""
}

// tokenExcludes: does exclude-checks token t (already upper-cased by configuration parsing) remove code c?
func tokenExcludes(t, c string) bool {
	return nd.Or(t == "ALL", t == c, t == allCategory(c))
}

// ZZC08AllCheckers: exclude-checks = any two tokens from {ALL, categories, codes, junk}: every checker drops exactly the
// matching codes and nothing else (the program produces all IMM/CTOR/TONL/PKGO codes).
func ZZC08AllCheckers() { c08AllCheckers(2) }

// ZZC08AllCheckers3: up to three tokens (thorough tier).
func ZZC08AllCheckers3() { c08AllCheckers(3) }

func c08AllCheckers(maxTokens int) {
	alts := []string{"ALL", "IMM", "CTOR", "TONL", "PKGO", "IMM02", "CTOR03", "TONL01", "TONL03", "PKGO01", "PKGO02", "IMPL", "JUNK", "IMM0"}
	e1 := nd.Enum("excl1", alts...)
	e2 := nd.Enum("excl2", alts...)
	e3 := nd.Enum("excl3", alts...)
	n := nd.Int("n_excl")
	nd.Assume(0 <= n)
	nd.Assume(n <= maxTokens)
	excl := []string{}
	if n >= 1 {
		excl = append(excl, e1)
	}
	if n >= 2 {
		excl = append(excl, e2)
	}
	if n >= 3 {
		excl = append(excl, e3)
	}
	files := []nd.File{{Pkg: "zzmod/d", Name: "d.go", Src: allSrcD}, {Pkg: "zzmod/u", Name: "u.go", Src: allSrcU}}
	prog := nd.LoadProgram(files, nil)
	cfg := config.New(false, []string{"testdata"}, excl)
	rd := Analyze(prog, cfg, "zzmod/d", Facts{}, "imm", "ctor", "tonl", "pkgo")
	ru := Analyze(prog, cfg, "zzmod/u", Facts{"zzmod/d": &rd.Ann}, "imm", "ctor", "tonl", "pkgo")
	var exp []Expect
	for _, cl := range allCodeLines {
		dropped := false
		if n >= 1 {
			dropped = nd.Or(dropped, tokenExcludes(e1, cl.code))
		}
		if n >= 2 {
			dropped = nd.Or(dropped, tokenExcludes(e2, cl.code))
		}
		if n >= 3 {
			dropped = nd.Or(dropped, tokenExcludes(e3, cl.code))
		}
		exp = append(exp, Expect{"/zz/zzmod/u/u.go", nd.LineOf(allSrcU, cl.needle), cl.code, nd.Not(dropped)})
	}
	CheckExact(rd.Diags, []Expect{}, "C08 declaring package (no diagnostics)")
	CheckExact(ru.Diags, exp, "C08 exclude-checks across all checkers")
}
