package zzh

import (
	"go/types"

	"golang.org/x/tools/go/analysis"

	"github.com/a14e/gogreement/src/annotations"
	"github.com/a14e/gogreement/src/config"
	"github.com/a14e/gogreement/src/constructor"
	"github.com/a14e/gogreement/src/immutable"
	"github.com/a14e/gogreement/src/packageonly"
	"github.com/a14e/gogreement/src/testonly"
	"github.com/a14e/gogreement/src/util"
	"github.com/a14e/gogreement/src/zzverif/nd"
)

const c09SrcD = `package d

import (
	_ "zzmod/e1"
	_ "zzmod/e2"
)
`

// ZZC09Poisoned: with no local annotations and only empty (or absent) facts from the imports, every checker returns no
// violation under any configuration — and does so without reading Files, TypesInfo or Fset (they are poisoned:
// any read would abort the run). This step has no bound on the analysed program.
func ZZC09Poisoned() {
	prog := nd.LoadProgram([]nd.File{
		{Pkg: "zzmod/e1", Name: "e.go", Src: "package e1\n"},
		{Pkg: "zzmod/e2", Name: "e.go", Src: "package e2\n"},
		{Pkg: "zzmod/d", Name: "d.go", Src: c09SrcD},
	}, nil)
	hasFact1 := nd.Bool("e1_exports_empty_fact")
	hasFact2 := nd.Bool("e2_exports_empty_fact")
	reports := 0
	pass := &analysis.Pass{
		Pkg:       prog.Pkg("zzmod/d"),
		Files:     nd.PoisonFiles(),
		TypesInfo: nd.PoisonInfo(),
		Fset:      nd.PoisonFset(),
		Report:    func(d analysis.Diagnostic) { reports++ },
		ImportPackageFact: func(p *types.Package, fact analysis.Fact) bool {
			// an unannotated dependency exports an empty fact, or none at all
			if p.Path() == "zzmod/e1" {
				return hasFact1
			}
			return hasFact2
		},
		ExportPackageFact: func(fact analysis.Fact) {},
	}
	scan := nd.Bool("scan_tests")
	excl := nd.Enum("exclude_checks", "", "ALL", "IMM", "JUNK")
	var checks []string
	if excl != "" {
		checks = []string{excl}
	}
	var paths []string
	if nd.Bool("default_paths") {
		paths = []string{"testdata"}
	}
	cfg := config.New(scan, paths, checks)
	ann := annotations.PackageAnnotations{}
	ign := &util.IgnoreSet{}
	if len(checks) > 0 {
		ign.AddModuleIgnore(checks)
	}
	v1 := immutable.CheckImmutable(cfg, pass, &ann)
	nd.Assert(len(v1) == 0, "immutable checker: no annotations, no violations")
	immutable.ReportViolations(pass, v1, ign)
	v2 := constructor.CheckConstructor(cfg, pass, &ann)
	nd.Assert(len(v2) == 0, "constructor checker: no annotations, no violations")
	constructor.ReportViolations(pass, v2, ign)
	v3 := testonly.CheckTestOnly(cfg, pass, &ann, ign)
	nd.Assert(len(v3) == 0, "testonly checker: no annotations, no violations")
	testonly.ReportViolations(pass, v3)
	v4 := packageonly.CheckPackageOnly(cfg, pass, &ann, ign)
	nd.Assert(len(v4) == 0, "packageonly checker: no annotations, no violations")
	packageonly.ReportViolations(pass, v4)
	nd.Assert(reports == 0, "nothing reported")
}

// valid annotation LINES at placements that are not doc comments of top-level declarations: trailing comment of a type
// without doc, doc of a local type, a line inside a block-comment doc, comment inside a body, doc of var/const
const c09SrcPlacement = `package d

type Counter struct {
	N int
} //«p1»

type Plain struct{ N int } //«p2»

/*
Example of an annotated declaration:

//«p3»
type Quoted struct{}
*/
type Quoted struct {
	N int
}

//«p6»
var Global Counter

func Work(c *Counter, q *Quoted, p *Plain) int {
	//«p4»
	type Local struct {
		N int
	}
	//«p5»
	c.N = 1
	c.N++
	q.N = 2
	p.N += 3
	l := Local{N: 4}
	l.N = 5
	_ = Counter{}
	_ = new(Quoted)
	var z Plain
	return l.N + z.N + Helper()
}

func Helper() int { return 0 }

// a type local to a function literal in a package-level initialiser that shares the name of a package-level type
var Init = func() int {
	//«p7»
	type Plain struct{ M int }
	return Plain{M: 1}.M
}()
`

var c09Valid = []string{" @immutable", " @constructor Make", " @testonly", " @packageonly w", " @mutable", " plain"}

// ZZC09Placement: VALID annotation lines, but only at placements that are not doc comments of top-level declarations
// (trailing comments, a quoted example inside a block-comment doc, doc of a local type, comment in a body, doc of a
// var, doc of a type local to a function literal in a package-level initialiser): nothing is read as an annotation and no analyzer reports anything.
func ZZC09Placement() {
	holes := []nd.Hole{}
	nonPlain := 0
	for _, n := range []string{"p1", "p2", "p3", "p4", "p5", "p6", "p7"} {
		v := nd.EnumPad(n, c09Valid...)
		holes = append(holes, nd.Hole{Name: n, Value: v})
		nonPlain += nd.IteInt(nd.HasPrefix(v, " plain"), 0, 1)
	}
	nd.Assume(nonPlain <= 2)
	prog := nd.LoadProgram([]nd.File{{Pkg: "zzmod/d", Name: "d.go", Src: c09SrcPlacement}}, holes)
	r := Analyze(prog, config.Default(), "zzmod/d", Facts{}, "imm", "ctor", "tonl", "pkgo")
	a := r.Ann
	n := len(a.ImplementsAnnotations) + len(a.ConstructorAnnotations) + len(a.ImmutableAnnotations) + len(a.TestonlyAnnotations) + len(a.MutableAnnotations) + len(a.PackageOnlyAnnotations)
	nd.Assert(n == 0, "annotation lines outside top-level doc comments produce no annotation")
	nd.Assert(len(r.Diags) == 0, "and therefore no diagnostic")
}

var c09NearMiss = []string{" plain", " see @immutable and @constructor New", " @Immutable", " @immutablex", " @TESTONLY", " @packageonlyx w", " @ constructor New", " constructor: @testonly"}

// ZZC09Corpus: the skeleton programs of C01-C04 with every annotation comment replaced by an arbitrary near-miss
// (keyword mid-sentence, other letter case, prefix of a longer word, blank after @): no annotation is read and no
// analyzer reports anything, under symbolic configuration.
func ZZC09Corpus() {
	names := []string{"annT", "annN", "ctor", "mut", "annH", "annF", "annM", "annFix", "annFixM", "annT2", "annG", "ctor2", "uctor"}
	holes := []nd.Hole{{"op", "+="}, {"inc", "++"}, {"fname", "prod.go"}}
	// two independent near-miss choices, assigned alternately to the comment sites
	nmA := nd.EnumPad("nm_a", c09NearMiss...)
	nmB := nd.EnumPad("nm_b", c09NearMiss...)
	for i, n := range names {
		v := nmA
		if i%2 == 1 {
			v = nmB
		}
		holes = append(holes, nd.Hole{Name: n, Value: v})
	}
	scan := nd.Bool("scan_tests")
	cfg := config.New(scan, []string{"testdata"}, []string{})
	type prg struct {
		files []nd.File
		pkgs  []string
	}
	progs := []prg{
		{[]nd.File{{Pkg: "zzmod/d", Name: "d.go", Src: c01SrcD}}, []string{"zzmod/d"}},
		{[]nd.File{{Pkg: "zzmod/d", Name: "d.go", Src: c01SrcMethods}}, []string{"zzmod/d"}},
		{[]nd.File{{Pkg: "zzmod/d", Name: "d.go", Src: c02SrcA}}, []string{"zzmod/d"}},
		{[]nd.File{{Pkg: "zzmod/d", Name: "d.go", Src: c03SrcD}, {Pkg: "zzmod/d", Name: "prod.go", Src: c03SrcProd}, {Pkg: "zzmod/u", Name: "u.go", Src: c03SrcU}}, []string{"zzmod/d", "zzmod/u"}},
		{[]nd.File{{Pkg: "zzmod/d", Name: "d.go", Src: c04SrcD}, {Pkg: "zzmod/u", Name: "u.go", Src: c04SrcU}}, []string{"zzmod/d", "zzmod/u"}},
		{[]nd.File{{Pkg: "zzmod/d", Name: "d.go", Src: crossSrcD}, {Pkg: "zzmod/u", Name: "u.go", Src: crossSrcU}}, []string{"zzmod/d", "zzmod/u"}},
	}
	which := nd.Int("program")
	nd.Assume(0 <= which)
	nd.Assume(which < len(progs))
	for pi, p := range progs {
		if pi != which {
			continue
		}
		prog := nd.LoadProgram(p.files, holes)
		facts := Facts{}
		for _, pkg := range p.pkgs {
			r := Analyze(prog, cfg, pkg, facts, "imm", "ctor", "tonl", "pkgo")
			a := r.Ann
			facts[pkg] = &a
			n := len(a.ImplementsAnnotations) + len(a.ConstructorAnnotations) + len(a.ImmutableAnnotations) + len(a.TestonlyAnnotations) + len(a.MutableAnnotations) + len(a.PackageOnlyAnnotations)
			nd.Assert(n == 0, "near-miss comments produce no annotation")
			nd.Assert(r.Ignore.Len() == 0, "near-miss comments produce no @ignore marker")
			nd.Assert(len(r.Diags) == 0, "unannotated program: no diagnostic from any analyzer")
		}
	}
}
