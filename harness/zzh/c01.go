package zzh

import (
	"github.com/a14e/gogreement/src/config"
	"github.com/a14e/gogreement/src/zzverif/nd"
)

const c01SrcD = `package d

//«annT»
//«ctor»
type T struct {
	f int
	//«mut»
	m int
	s []int
}

func NewT() *T {
	t := &T{}
	t.f = 1 // SITE-CTOR
	t.f <<= 2 // SITE-CTOR-COMPOUND
	t.s[0] = 3 // SITE-CTOR-INDEX
	t.f-- // SITE-CTOR-INCDEC
	t.f, t.s[1] = 4, 5 // SITE-CTOR-PARALLEL
	return t
}

func Other(t *T) {
	t.f = 2 // SITE-ASSIGN
	t.f «op» 3 // SITE-COMPOUND
	t.m = 4 // SITE-MUTABLE
	t.s[0] = 5 // SITE-INDEX
	t.f«inc» // SITE-INCDEC
	_ = t.f // SITE-READ
	var ok bool
	t.f, ok = lookup() // SITE-TUPLE-CALL
	t.s[1], ok = tab["k"] // SITE-TUPLE-INDEX
	t.f, t.m = 6, 7 // SITE-PARALLEL
	_ = ok
}

func lookup() (int, bool) { return 0, true }

var tab = map[string]int{}

type (
	//«annG»
	G1 struct {
		g int
	}
	G2 struct {
		g int
	}
)

func Grouped(a *G1, b *G2) {
	a.g = 1 // SITE-GROUP-FIRST
	b.g = 2 // SITE-GROUP-SECOND
}
`

// ZZC01Basic: one package; annotation mix, compound operator and inc/dec token are symbolic.
func ZZC01Basic() {
	annT := nd.EnumPad("annT", " @immutable", " plain")
	ctor := nd.EnumPad("ctor", " @constructor NewT", " @constructor MakT", " plain")
	mut := nd.EnumPad("mut", " @mutable", " plain")
	op := nd.EnumPad("op", "+=", "-=", "*=", "/=", "%=", "&=", "|=", "^=", "<<=", ">>=", "&^=")
	inc := nd.Enum("inc", "++", "--")
	annG := nd.EnumPad("annG", " @immutable", " plain")
	holes := []nd.Hole{{"annT", annT}, {"ctor", ctor}, {"mut", mut}, {"op", op}, {"inc", inc}, {"annG", annG}}
	files := []nd.File{{Pkg: "zzmod/d", Name: "d.go", Src: c01SrcD}}
	prog := nd.LoadProgram(files, holes)
	res := Analyze(prog, config.Default(), "zzmod/d", Facts{}, "imm")

	imm := nd.HasPrefix(annT, " @immutable")
	file := "/zz/zzmod/d/d.go"
	exp := []Expect{
		{file, nd.LineOf(c01SrcD, "SITE-CTOR"), "IMM01", nd.And(imm, nd.Not(nd.HasPrefix(ctor, " @constructor NewT")))},
		// every write form has its own exemption test: all of them inside the constructor
		{file, nd.LineOf(c01SrcD, "SITE-CTOR-COMPOUND"), "IMM02", nd.And(imm, nd.Not(nd.HasPrefix(ctor, " @constructor NewT")))},
		{file, nd.LineOf(c01SrcD, "SITE-CTOR-INDEX"), "IMM04", nd.And(imm, nd.Not(nd.HasPrefix(ctor, " @constructor NewT")))},
		{file, nd.LineOf(c01SrcD, "SITE-CTOR-INCDEC"), "IMM03", nd.And(imm, nd.Not(nd.HasPrefix(ctor, " @constructor NewT")))},
		{file, nd.LineOf(c01SrcD, "SITE-CTOR-PARALLEL"), "IMM01", nd.And(imm, nd.Not(nd.HasPrefix(ctor, " @constructor NewT")))},
		{file, nd.LineOf(c01SrcD, "SITE-CTOR-PARALLEL"), "IMM04", nd.And(imm, nd.Not(nd.HasPrefix(ctor, " @constructor NewT")))},
		{file, nd.LineOf(c01SrcD, "SITE-ASSIGN"), "IMM01", imm},
		{file, nd.LineOf(c01SrcD, "SITE-COMPOUND"), "IMM02", imm},
		{file, nd.LineOf(c01SrcD, "SITE-MUTABLE"), "IMM01", nd.And(imm, nd.Not(nd.HasPrefix(mut, " @mutable")))},
		{file, nd.LineOf(c01SrcD, "SITE-INDEX"), "IMM04", imm},
		{file, nd.LineOf(c01SrcD, "SITE-INCDEC"), "IMM03", imm},
		{file, nd.LineOf(c01SrcD, "SITE-TUPLE-CALL"), "IMM01", imm},
		{file, nd.LineOf(c01SrcD, "SITE-TUPLE-INDEX"), "IMM04", imm},
		{file, nd.LineOf(c01SrcD, "SITE-PARALLEL"), "IMM01", imm}, // t.f (and t.m unless @mutable) on one line: at least the t.f write
		// the doc of one spec of a type(...) group belongs to that spec only
		{file, nd.LineOf(c01SrcD, "SITE-GROUP-FIRST"), "IMM01", nd.HasPrefix(annG, " @immutable")},
		{file, nd.LineOf(c01SrcD, "SITE-GROUP-SECOND"), "IMM01", false},
	}
	CheckExact(res.Diags, exp, "C01 basic")
}

const c01SrcMethods = `package d

//«annT»
//«ctor»
type T struct {
	f int
}

//«annN»
type N int

type Q struct {
	f int
}

func (t *T) PtrMethod(o T) {
	t.f = 1 // SITE-PTRM
	*t = o // SITE-RECVSET
}

func (t T) ValMethod() {
	t.f = 2 // SITE-VALM
}

func (n *N) Inc() {
	*n++ // SITE-RECVINC
	*n = 5 // SITE-RECVSET2
}

func NewT() *T {
	t := &T{}
	func() {
		t.f = 3 // SITE-CTORCLOSURE
	}()
	return t
}

func Nest(t *T, q *Q, c chan int) {
	if t != nil {
		for i := 0; i < 1; i++ {
			switch {
			case i == 0:
				t.f = 4 // SITE-NESTED
			}
		}
	}
	func() {
		t.f = 5 // SITE-CLOSURE
	}()
	defer func() {
		t.f = 6 // SITE-DEFER
	}()
	go func() {
		t.f = 7 // SITE-GO
	}()
	select {
	case <-c:
		t.f = 8 // SITE-SELECT
	default:
	}
	q.f = 9 // SITE-UNANNOTATED
	x := t.f // SITE-READ
	_ = x
	var v T
	v.f = 10 // SITE-VALUE
}
`

// ZZC01Methods: methods (pointer/value receiver), receiver overwrite / increment, every nesting construct.
func ZZC01Methods() {
	annT := nd.EnumPad("annT", " @immutable", " plain")
	annN := nd.EnumPad("annN", " @immutable", " plain")
	ctor := nd.EnumPad("ctor", " @constructor NewT", " @constructor Nest, PtrMethod", " plain")
	holes := []nd.Hole{{"annT", annT}, {"annN", annN}, {"ctor", ctor}}
	files := []nd.File{{Pkg: "zzmod/d", Name: "d.go", Src: c01SrcMethods}}
	prog := nd.LoadProgram(files, holes)
	res := Analyze(prog, config.Default(), "zzmod/d", Facts{}, "imm")

	immT := nd.HasPrefix(annT, " @immutable")
	immN := nd.HasPrefix(annN, " @immutable")
	ctorNew := nd.HasPrefix(ctor, " @constructor NewT")
	ctorNest := nd.HasPrefix(ctor, " @constructor Nest, PtrMethod")
	src := c01SrcMethods
	file := "/zz/zzmod/d/d.go"
	inNest := nd.And(immT, nd.Not(ctorNest))
	exp := []Expect{
		// "a method whose name equals a constructor name" is a don't-care (DESIGN §4): PtrMethod sites are only
		// constrained when PtrMethod is not listed
		{file, nd.LineOf(src, "SITE-VALM"), "IMM01", immT},
		{file, nd.LineOf(src, "SITE-RECVINC"), "IMM03", immN},
		{file, nd.LineOf(src, "SITE-RECVSET2"), "IMM01", immN},
		{file, nd.LineOf(src, "SITE-CTORCLOSURE"), "IMM01", nd.And(immT, nd.Not(ctorNew))},
		{file, nd.LineOf(src, "SITE-NESTED"), "IMM01", inNest},
		{file, nd.LineOf(src, "SITE-CLOSURE"), "IMM01", inNest},
		{file, nd.LineOf(src, "SITE-DEFER"), "IMM01", inNest},
		{file, nd.LineOf(src, "SITE-GO"), "IMM01", inNest},
		{file, nd.LineOf(src, "SITE-SELECT"), "IMM01", inNest},
		{file, nd.LineOf(src, "SITE-VALUE"), "IMM01", inNest},
	}
	if !ctorNest {
		exp = append(exp,
			Expect{file, nd.LineOf(src, "SITE-PTRM"), "IMM01", immT},
			Expect{file, nd.LineOf(src, "SITE-RECVSET"), "IMM01", immT})
	} else {
		// don't-care region: accept either verdict on the two PtrMethod lines
		var kept []Diag
		for _, d := range res.Diags {
			if d.Line != nd.LineOf(src, "SITE-PTRM") && d.Line != nd.LineOf(src, "SITE-RECVSET") {
				kept = append(kept, d)
			}
		}
		res.Diags = kept
	}
	CheckExact(res.Diags, exp, "C01 methods/nesting")
}

const c01SrcInitA = `package d

//«annT»
//«ctor»
type T struct {
	f int
}

var early = func() int {
	t := &T{}
	t.f = 10 // SITE-EARLY
	return t.f
}()
`

const c01SrcInitB = `package d

func NewT() *T {
	t := &T{}
	t.f = 3 // SITE-CTOR
	return t
}

var late = func() int {
	t := new(T)
	t.f = 11 // SITE-LATE
	return t.f
}()

func After(t *T) {
	t.f = 12 // SITE-AFTER
}
`

const c01SrcInitC = `package d

var other = func() int {
	t := new(T)
	t.f = 13 // SITE-OTHERFILE
	return t.f
}()
`

// ZZC01Init: writes in package-level initialisers: before any function of the package, after a constructor in the
// same file, in a later file.
func ZZC01Init() {
	annT := nd.EnumPad("annT", " @immutable", " plain")
	ctor := nd.EnumPad("ctor", " @constructor NewT", " plain")
	holes := []nd.Hole{{"annT", annT}, {"ctor", ctor}}
	files := []nd.File{
		{Pkg: "zzmod/d", Name: "a.go", Src: c01SrcInitA},
		{Pkg: "zzmod/d", Name: "b.go", Src: c01SrcInitB},
		{Pkg: "zzmod/d", Name: "c.go", Src: c01SrcInitC},
	}
	prog := nd.LoadProgram(files, holes)
	res := Analyze(prog, config.Default(), "zzmod/d", Facts{}, "imm")
	immT := nd.HasPrefix(annT, " @immutable")
	ctorNew := nd.HasPrefix(ctor, " @constructor NewT")
	nd.Known("C01/init-after-constructor", nd.And(immT, ctorNew))
	exp := []Expect{
		{"/zz/zzmod/d/a.go", nd.LineOf(c01SrcInitA, "SITE-EARLY"), "IMM01", immT},
		{"/zz/zzmod/d/b.go", nd.LineOf(c01SrcInitB, "SITE-CTOR"), "IMM01", nd.And(immT, nd.Not(ctorNew))},
		{"/zz/zzmod/d/b.go", nd.LineOf(c01SrcInitB, "SITE-LATE"), "IMM01", immT},
		{"/zz/zzmod/d/b.go", nd.LineOf(c01SrcInitB, "SITE-AFTER"), "IMM01", immT},
		{"/zz/zzmod/d/c.go", nd.LineOf(c01SrcInitC, "SITE-OTHERFILE"), "IMM01", immT},
	}
	CheckExact(res.Diags, exp, "C01 package-level initialisers")
}

const c01SrcShadow = `package d

//«annT»
type T struct {
	f int
}

func (t *T) Shadow(o T) {
	{
		t := new(int)
		*t = 7 // SITE-SHADOW
		*t++ // SITE-SHADOWINC
		*t += 2 // SITE-SHADOWCOMPOUND
	}
	func(t *T) {
		*t = o // SITE-PARAM-NOT-RECEIVER
	}(nil)
	*t = o // SITE-RECEIVER
}
`

// ZZC01Shadow: only the receiver itself counts for "overwrites / increments the pointer receiver".
func ZZC01Shadow() {
	annT := nd.EnumPad("annT", " @immutable", " plain")
	holes := []nd.Hole{{"annT", annT}}
	prog := nd.LoadProgram([]nd.File{{Pkg: "zzmod/d", Name: "d.go", Src: c01SrcShadow}}, holes)
	res := Analyze(prog, config.Default(), "zzmod/d", Facts{}, "imm")
	imm := nd.HasPrefix(annT, " @immutable")
	nd.Known("C01/receiver-name-shadow", imm)
	// SITE-PARAM-NOT-RECEIVER: '*t = o' through a closure parameter of type *T is not a field write and not the receiver:
	// the property does not list it, the oracle leaves it open (don't-care) by dropping that line
	var kept []Diag
	for _, d := range res.Diags {
		if d.Line != nd.LineOf(c01SrcShadow, "SITE-PARAM-NOT-RECEIVER") {
			kept = append(kept, d)
		}
	}
	CheckExact(kept, []Expect{
		{"/zz/zzmod/d/d.go", nd.LineOf(c01SrcShadow, "SITE-RECEIVER"), "IMM01", imm},
	}, "C01 receiver shadowing")
}

const c01SrcEdge = `package d

//«annT»
// @constructor NewT, Init, Setup, Build
type T struct {
	N  int
	Xs []int
	//«mutAB»
	A, B int
}

//«annI»
type I int

//«annO»
type Outer struct {
	T
	k int
}

type OuterP struct {
	*T
}

// two levels, the OUTER one by pointer
type Mid struct {
	T
}

type Outer2 struct {
	*Mid
}

func (i *I) Add() {
	*i += 1 // E-RECV-COMPOUND
	(*i)++ // E-RECV-PAREN-INC
	(*i) = 3 // E-RECV-PAREN-SET
	*(i) = 4 // E-RECV-INNER-PAREN
}

// a listed constructor method with an UNNAMED receiver spelled through the alias
func (*TA) Build(o *T) {
	o.N = 1 // E-UNNAMED-ALIAS-RECV-CTOR
}

func TwoLevels(o2 Outer2) {
	o2.N = 1 // E-PROMOTED-2LEVEL-PTR
	o2.Xs[0] = 2 // E-PROMOTED-2LEVEL-PTR-INDEX
}

func Edge(p *T, o *Outer, op OuterP) {
	(p.N) = 1 // E-PAREN-ASSIGN
	(p.Xs)[0] = 1 // E-PAREN-INDEX
	(p.N)++ // E-PAREN-INC
	(p.N) += 2 // E-PAREN-COMPOUND
	(p).N = 3 // E-PAREN-BASE
	(*p).N = 3 // E-DEREF-BASE
	o.N = 4 // E-PROMOTED
	o.T.N = 5 // E-EXPLICIT
	o.Xs[0] = 6 // E-PROMOTED-INDEX
	o.N++ // E-PROMOTED-INC
	o.N -= 1 // E-PROMOTED-COMPOUND
	op.N = 7 // E-PROMOTED-PTR
	o.k = 8 // E-OUTER-OWN
	p.A = 9 // E-MUT-FIRST-NAME
	p.B = 10 // E-MUT-SECOND-NAME
	p.B++ // E-MUT-SECOND-INC
}

type TA = T

// methods of T itself that are listed as constructors: the receiver written directly and through an alias
func (t *T) Init() {
	t.N = 1 // E-METHOD-CTOR
}

func (a *TA) Setup() {
	a.N = 2 // E-ALIAS-METHOD-CTOR
	*a = T{} // E-ALIAS-METHOD-CTOR-RECV
}

// not a constructor: overwriting the receiver is reported however the receiver type is spelled
func (a *TA) Overwrite(o T) {
	*a = o // E-ALIAS-RECV-SET
}

func (t *T) OverwriteDirect(o T) {
	*t = o // E-DIRECT-RECV-SET
}

// a defined pointer type: q.N stands for (*q).N
//«annNP»
type NP *T

func ViaDefinedPointer(q NP) {
	q.N = 1 // E-DEFPTR-ASSIGN
	q.N++ // E-DEFPTR-INC
	q.N += 1 // E-DEFPTR-COMPOUND
	q.Xs[0] = 1 // E-DEFPTR-INDEX
	(*q).N = 2 // E-DEFPTR-EXPLICIT
}

// an alias that denotes a pointer to the type, and an alias of an alias: the same four write forms
type PA = *T

type TAA = TA

func ViaAliasOfPointer(q PA, r *TAA) {
	q.N = 1 // E-ALIASPTR-ASSIGN
	q.N++ // E-ALIASPTR-INC
	q.N += 1 // E-ALIASPTR-COMPOUND
	q.Xs[0] = 1 // E-ALIASPTR-INDEX
	r.N = 1 // E-ALIAS2-ASSIGN
	r.N-- // E-ALIAS2-INC
	r.N *= 2 // E-ALIAS2-COMPOUND
	r.Xs[1] = 1 // E-ALIAS2-INDEX
}

type Helper struct{}

// a METHOD of another type that merely shares the constructor's name is not the function NewT
func (Helper) NewT(p *T) {
	p.N = 1 // E-OTHER-METHOD-NAMED-LIKE-CTOR
}

func Local() int {
	type T struct{ N int }
	var v T
	v.N = 1 // E-LOCAL-ASSIGN
	v.N++ // E-LOCAL-INC
	v.N += 2 // E-LOCAL-COMPOUND
	return v.N
}
`

// ZZC01Edge: parenthesised write targets, compound assignment through the pointer receiver, fields promoted through an
// embedded @immutable struct (value and pointer embedding), and a function-local type that shares the annotated type's name.
func ZZC01Edge() {
	annT := nd.EnumPad("annT", " @immutable", " plain")
	annI := nd.EnumPad("annI", " @immutable", " plain")
	mutAB := nd.EnumPad("mutAB", " @mutable", " plain")
	// the embedding struct and the defined pointer type may carry the annotation themselves: a promoted field is a field of
	// the embedding struct too, and q.N is a field write through a value of type NP
	annO := nd.EnumPad("annO", " @immutable", " plain")
	annNP := nd.EnumPad("annNP", " @immutable", " plain")
	holes := []nd.Hole{{"annT", annT}, {"annI", annI}, {"mutAB", mutAB}, {"annO", annO}, {"annNP", annNP}}
	prog := nd.LoadProgram([]nd.File{{Pkg: "zzmod/d", Name: "d.go", Src: c01SrcEdge}}, holes)
	res := Analyze(prog, config.Default(), "zzmod/d", Facts{}, "imm")
	immT := nd.HasPrefix(annT, " @immutable")
	immI := nd.HasPrefix(annI, " @immutable")
	immO := nd.HasPrefix(annO, " @immutable")
	immNP := nd.HasPrefix(annNP, " @immutable")
	immTO := nd.Or(immT, immO)
	immTNP := nd.Or(immT, immNP)
	f := "/zz/zzmod/d/d.go"
	src := c01SrcEdge
	CheckExact(res.Diags, []Expect{
		{f, nd.LineOf(src, "E-RECV-COMPOUND"), "IMM02", immI},
		{f, nd.LineOf(src, "E-RECV-PAREN-INC"), "IMM03", immI},
		{f, nd.LineOf(src, "E-RECV-PAREN-SET"), "IMM01", immI},
		{f, nd.LineOf(src, "E-RECV-INNER-PAREN"), "IMM01", immI},
		{f, nd.LineOf(src, "E-PAREN-ASSIGN"), "IMM01", immT},
		{f, nd.LineOf(src, "E-PAREN-INDEX"), "IMM04", immT},
		{f, nd.LineOf(src, "E-PAREN-INC"), "IMM03", immT},
		{f, nd.LineOf(src, "E-PAREN-COMPOUND"), "IMM02", immT},
		{f, nd.LineOf(src, "E-PAREN-BASE"), "IMM01", immT},
		{f, nd.LineOf(src, "E-DEREF-BASE"), "IMM01", immT},
		{f, nd.LineOf(src, "E-PROMOTED"), "IMM01", immTO},
		{f, nd.LineOf(src, "E-EXPLICIT"), "IMM01", immT},
		{f, nd.LineOf(src, "E-PROMOTED-INDEX"), "IMM04", immTO},
		{f, nd.LineOf(src, "E-PROMOTED-INC"), "IMM03", immTO},
		{f, nd.LineOf(src, "E-PROMOTED-COMPOUND"), "IMM02", immTO},
		{f, nd.LineOf(src, "E-PROMOTED-PTR"), "IMM01", immT},
		{f, nd.LineOf(src, "E-PROMOTED-2LEVEL-PTR"), "IMM01", immT},
		{f, nd.LineOf(src, "E-PROMOTED-2LEVEL-PTR-INDEX"), "IMM04", immT},
		// E-UNNAMED-ALIAS-RECV-CTOR: nothing (Build is a listed constructor method of T)
		// one @mutable doc above a field declaration with several names covers every name
		{f, nd.LineOf(src, "E-MUT-FIRST-NAME"), "IMM01", nd.And(immT, nd.Not(nd.HasPrefix(mutAB, " @mutable")))},
		{f, nd.LineOf(src, "E-MUT-SECOND-NAME"), "IMM01", nd.And(immT, nd.Not(nd.HasPrefix(mutAB, " @mutable")))},
		{f, nd.LineOf(src, "E-MUT-SECOND-INC"), "IMM03", nd.And(immT, nd.Not(nd.HasPrefix(mutAB, " @mutable")))},
		{f, nd.LineOf(src, "E-OTHER-METHOD-NAMED-LIKE-CTOR"), "IMM01", immT},
		// E-METHOD-CTOR, E-ALIAS-METHOD-CTOR(-RECV): a listed method of the type itself is a constructor, however its receiver is spelled
		{f, nd.LineOf(src, "E-ALIAS-RECV-SET"), "IMM01", immT},
		{f, nd.LineOf(src, "E-DIRECT-RECV-SET"), "IMM01", immT},
		{f, nd.LineOf(src, "E-DEFPTR-ASSIGN"), "IMM01", immTNP},
		{f, nd.LineOf(src, "E-DEFPTR-INC"), "IMM03", immTNP},
		{f, nd.LineOf(src, "E-DEFPTR-COMPOUND"), "IMM02", immTNP},
		{f, nd.LineOf(src, "E-DEFPTR-INDEX"), "IMM04", immTNP},
		{f, nd.LineOf(src, "E-DEFPTR-EXPLICIT"), "IMM01", immT},
		{f, nd.LineOf(src, "E-ALIASPTR-ASSIGN"), "IMM01", immT},
		{f, nd.LineOf(src, "E-ALIASPTR-INC"), "IMM03", immT},
		{f, nd.LineOf(src, "E-ALIASPTR-COMPOUND"), "IMM02", immT},
		{f, nd.LineOf(src, "E-ALIASPTR-INDEX"), "IMM04", immT},
		{f, nd.LineOf(src, "E-ALIAS2-ASSIGN"), "IMM01", immT},
		{f, nd.LineOf(src, "E-ALIAS2-INC"), "IMM03", immT},
		{f, nd.LineOf(src, "E-ALIAS2-COMPOUND"), "IMM02", immT},
		{f, nd.LineOf(src, "E-ALIAS2-INDEX"), "IMM04", immT},
		{f, nd.LineOf(src, "E-OUTER-OWN"), "IMM01", immO},
		// E-LOCAL-*: nothing
	}, "C01 edge forms")
}
