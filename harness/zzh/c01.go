package zzh

import (
	"github.com/a14e/gogreement/src/config"
	"github.com/a14e/gogreement/src/zzverif/nd"
)

const c01SrcD = `package d

//«annT»
//«ctor»
type T struct {
	f int
	//«mut»
	m int
	s []int
}

func NewT() *T {
	t := &T{}
	t.f = 1 // SITE-CTOR
	return t
}

func Other(t *T) {
	t.f = 2 // SITE-ASSIGN
	t.f «op» 3 // SITE-COMPOUND
	t.m = 4 // SITE-MUTABLE
	t.s[0] = 5 // SITE-INDEX
	t.f«inc» // SITE-INCDEC
	_ = t.f // SITE-READ
}
`

// ZZC01Basic: one package; annotation mix, compound operator and inc/dec token are symbolic.
func ZZC01Basic() {
	annT := nd.EnumPad("annT", " @immutable", " plain")
	ctor := nd.EnumPad("ctor", " @constructor NewT", " @constructor MakT", " plain")
	mut := nd.EnumPad("mut", " @mutable", " plain")
	op := nd.EnumPad("op", "+=", "-=", "*=", "/=", "%=", "&=", "|=", "^=", "<<=", ">>=", "&^=")
	inc := nd.Enum("inc", "++", "--")
	holes := []nd.Hole{{"annT", annT}, {"ctor", ctor}, {"mut", mut}, {"op", op}, {"inc", inc}}
	files := []nd.File{{Pkg: "zzmod/d", Name: "d.go", Src: c01SrcD}}
	prog := nd.LoadProgram(files, holes)
	res := Analyze(prog, config.Default(), "zzmod/d", Facts{}, "imm")

	imm := nd.HasPrefix(annT, " @immutable")
	file := "/zz/zzmod/d/d.go"
	exp := []Expect{
		{file, nd.LineOf(c01SrcD, "SITE-CTOR"), "IMM01", nd.And(imm, nd.Not(nd.HasPrefix(ctor, " @constructor NewT")))},
		{file, nd.LineOf(c01SrcD, "SITE-ASSIGN"), "IMM01", imm},
		{file, nd.LineOf(c01SrcD, "SITE-COMPOUND"), "IMM02", imm},
		{file, nd.LineOf(c01SrcD, "SITE-MUTABLE"), "IMM01", nd.And(imm, nd.Not(nd.HasPrefix(mut, " @mutable")))},
		{file, nd.LineOf(c01SrcD, "SITE-INDEX"), "IMM04", imm},
		{file, nd.LineOf(c01SrcD, "SITE-INCDEC"), "IMM03", imm},
	}
	CheckExact(res.Diags, exp, "C01 basic")
}
