package zzh

import (
	"github.com/a14e/gogreement/src/config"
	"github.com/a14e/gogreement/src/zzverif/nd"
)

const c10SrcE = `package e

//«y1»
type E struct {
	X int
}

//«y2»
func New() *E { return &E{} }

type Iface interface {
	M()
}

//«y3»
func (e *E) M() {}
`

const c10SrcD = `package d

import (
	"zzmod/e"
)

//«x1»
type G[T any] struct {
	v T
}

func (g *G[T]) Set(v T) { g.v = v }

//«x2»
type F func(int) int

//«x3»
type I interface {
	M()
}

//«x4»
type A [3]int

type Failure = error

type AnyAlias = any

type Cmp = comparable

type SliceAlias = []int

type PtrAlias = *S

// an annotation on an ALIAS declaration (the reader accepts any type declaration)
//«x9»
type AliasS = S

func UseAliases(f Failure, a AnyAlias, s SliceAlias, p PtrAlias) {
	_ = f
	_ = a
	s[0] = 1
	p.f = nil
}

func Constrained[K Cmp](k K) K { return k }

//«x5»
type S struct {
	//«x8»
	e.E
	f  func()
	m  map[string]int
	c  chan int
	p  *S
	an struct{ z int }
}

var early = func() int {
	var s S
	s.an.z = 1
	s.m["k"] = 2
	s.p = &s
	s.p.p.f = nil
	s.X = 3
	s.E.X++
	return 0
}()

func (S) NoName() {}

func (_ *S) Blank() {}

//«x6»
func Gen[T any](x T) T {
	var z G[T]
	z.v = x
	w := G[int]{v: 1}
	w.v++
	return z.v
}

func Labels(n int) {
L:
	for i := 0; i < n; i++ {
		if i == 1 {
			continue L
		}
		break L
	}
}

func Errs(err error) string { return err.Error() }

func Anon() {
	x := struct{ a int }{}
	x.a = 1
	p := &x
	p.a++
	y := []struct{ b int }{{1}}
	y[0].b = 2
	_ = new(int)
	_ = new(struct{})
	var q, r = 1, 2
	_, _ = q, r
	var arr A
	arr[0] = 1
	(*p).a = 3
	var pp **S
	(*pp).f = nil
	(**pp).f = nil
}

func Tuple() (int, error) { return 0, nil }

// function-local types that refer to themselves (through a pointer, as a map key, as an element)
func LocalRecursive() int {
	type link *link
	type graph map[*graph]int
	type tree map[string][]*tree
	var l link
	var g graph
	var t tree
	_ = l
	return len(g) + len(t)
}

func Multi() {
	a, err := Tuple()
	_, _ = a, err
	var i I
	_ = i
	m := map[string]S{}
	m["x"] = S{}
	var fn F
	_ = fn
	ms := map[string]*S{}
	ms["y"].f = nil
	sl := []S{{}}
	sl[0].f = nil
	sl[0].m["q"] = 1
}

func MethodExpr() {
	f := (*S).Blank
	f(nil)
	g := S.NoName
	g(S{})
	h := e.New
	_ = h().X
	k := (&e.E{}).M
	k()
}

func Conv() {
	_ = F(nil)
	_ = (*S)(nil)
	_ = []byte("x")
	_ = e.E{}
	var iface interface{} = 1
	_ = iface.(int)
	switch v := iface.(type) {
	case S:
		v.f = nil
	case *e.E:
		v.X = 1
	}
	var z struct {
		e.E
	}
	z.X = 2
	func() {
		defer func() { recover() }()
		var np *S
		np.f = nil
	}()
}

//«x7»
func (s *S) Ptr(o S) {
	*s = o
	s.E = e.E{}
	s.E.X = 1
}
`

var c10Alts = []string{" @immutable", " @constructor Gen, New, Ptr", " @testonly", " @packageonly w", " @implements I", " @implements &e.Iface", " @implements nope.X", " @mutable", " statistics, @mutable on purpose", " @ignore ALL", " plain"}

// ZZC10Stress: a package full of constructs the checkers do not specialise for (generic types and functions, func / array /
// interface / anonymous struct types, embedded fields, unnamed and blank receivers, labels, method expressions and values,
// type switches, double pointers, map/slice element selectors, universe-type methods, package-level initialiser) with ANY
// annotation on any two of ten declarations, analysed by all five analyzers under symbolic configuration: every path ends
// normally (no panic, no unwinding failure).
func ZZC10Stress1() { c10Stress(1, "") }
func ZZC10Stress2() { c10Stress(2, "") }

// ZZC10StressImm: the struct S is @immutable (fixed) and any one other declaration (its embedded field, its methods, the
// generic function, the other package) carries any spelling.
func ZZC10StressImm() { c10Stress(1, "x5") }

func c10Stress(maxNonPlain int, fixedImm string) {
	names := []string{"x1", "x2", "x3", "x4", "x5", "x6", "x7", "x8", "x9", "y1", "y2", "y3"}
	holes := []nd.Hole{}
	nonPlain := 0
	for _, n := range names {
		if n == fixedImm {
			w := 0
			for _, a := range c10Alts {
				if len(a) > w {
					w = len(a)
				}
			}
			holes = append(holes, nd.Hole{Name: n, Value: pad(" @immutable", w)})
			continue
		}
		v := nd.EnumPad(n, c10Alts...)
		holes = append(holes, nd.Hole{Name: n, Value: v})
		nonPlain += nd.IteInt(nd.HasPrefix(v, " plain"), 0, 1)
	}
	nd.Assume(nonPlain <= maxNonPlain)
	files := []nd.File{{Pkg: "zzmod/e", Name: "e.go", Src: c10SrcE}, {Pkg: "zzmod/d", Name: "d.go", Src: c10SrcD}}
	prog := nd.LoadProgram(files, holes)
	cfg := config.New(nd.Bool("scan_tests"), []string{"testdata"}, []string{})
	re := Analyze(prog, cfg, "zzmod/e", Facts{}, "impl", "imm", "ctor", "tonl", "pkgo")
	rd := Analyze(prog, cfg, "zzmod/d", Facts{"zzmod/e": &re.Ann}, "impl", "imm", "ctor", "tonl", "pkgo")
	for _, d := range append(re.Diags, rd.Diags...) {
		nd.Assert(d.Code != "?", "every diagnostic carries a documented code")
	}
	nd.Reach("analysis of both packages completed")
}

const c10SrcG = `package g

import "zzmod/e"

//«g1»
type T struct{ N int }

//line gram.y:1000
var X = T{N: 1} //«g2»

//«g7»
func New() *T {
	new := func() *T { return nil }
	_ = new()
	len := 3
	_ = len
	make := func(...int) []T { return nil }
	_ = make()
	t := new()
	t.N = 2 //«g3»
	//«g4»
	t.N++
//line gram.y:5
	t.N-- //«g5»
	return t
}

/*line other.go:7:3*/ var Y = e.E{X: 1} //«g6»

func Wide(t *T) {
//line g.go:12:30000
	t.N = 9 // a //line directive with a huge COLUMN for a line of this very file
}

var Last = T{N: 2}`

var c10GAlts = []string{" @immutable", " @constructor New", " @testonly", " @ignore ALL", " @ignore CTOR01, IMM01", " plain"}

// ZZC10Lines: generated-code shapes — //line directives (line numbers beyond the physical file, a second file name, a
// /*line*/ form with column), trailing and free-standing comments in their scope, locally shadowed builtins called without
// arguments (new, make, len), a violation on the last line of a file that does not end in a newline — with readable
// sources, so that excerpt rendering runs too. ANY spelling in any two of the seven comments.
func ZZC10Lines() {
	names := []string{"g1", "g2", "g3", "g4", "g5", "g6", "g7", "y1", "y2"}
	holes := []nd.Hole{}
	nonPlain := 0
	for _, n := range names {
		v := nd.EnumPad(n, c10GAlts...)
		holes = append(holes, nd.Hole{Name: n, Value: v})
		nonPlain += nd.IteInt(nd.HasPrefix(v, " plain"), 0, 1)
	}
	holes = append(holes, nd.Hole{Name: "y3", Value: " plain"})
	nd.Assume(nonPlain <= 2)
	files := []nd.File{{Pkg: "zzmod/e", Name: "e.go", Src: c10SrcE}, {Pkg: "zzmod/g", Name: "g.go", Src: c10SrcG}}
	prog := nd.LoadProgram(files, holes)
	cfg := config.New(nd.Bool("scan_tests"), []string{"testdata"}, []string{})
	re := AnalyzeSrc(prog, cfg, "zzmod/e", Facts{}, "impl", "imm", "ctor", "tonl", "pkgo")
	rg := AnalyzeSrc(prog, cfg, "zzmod/g", Facts{"zzmod/e": &re.Ann}, "impl", "imm", "ctor", "tonl", "pkgo")
	for _, d := range append(re.Diags, rg.Diags...) {
		nd.Assert(d.Code != "?", "every diagnostic carries a documented code")
		nd.Assert(len(d.Msg) <= 2048, "the size of a message is bounded by its excerpt, not by a //line column")
	}
	nd.Reach("analysis of both packages completed")
}
