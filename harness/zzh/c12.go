package zzh

import (
	"github.com/a14e/gogreement/src/config"
	"github.com/a14e/gogreement/src/zzverif/nd"
)

// declaration blocks; a layout is an arrangement of these blocks into files
const (
	c12T = `//«annT»
//«ctor»
type T struct {
	f int
}
`
	c12New = `func NewT() *T {
	t := &T{} // TAG-NEW-LIT
	t.f = 1 // TAG-NEW-ASSIGN
	return t
}
`
	c12Use = `func Use(t *T) {
	t.f = 2 // TAG-USE-ASSIGN
	_ = T{} // TAG-USE-LIT
	_ = Mock() // TAG-USE-CALL
}
`
	c12Var = `var pkgLevel = func() int {
	t := new(T) // TAG-VAR-NEW
	t.f = 3 // TAG-VAR-ASSIGN
	return t.f
}()
`
	c12M = `func (t *T) Set(o T) {
	t.f = 4 // TAG-M-ASSIGN
	*t = o // TAG-M-RECV
	{
		t := new(int)
		*t = 5 // TAG-M-LOCAL
	}
}
`
	c12MRenamed = `func (recv *T) Set(other T) {
	recv.f = 4 // TAG-M-ASSIGN
	*recv = other // TAG-M-RECV
	{
		t := new(int)
		*t = 5 // TAG-M-LOCAL
	}
}
`
	c12UseRenamed = `func Use(t0 *T) {
	t0.f = 2 // TAG-USE-ASSIGN
	_ = T{} // TAG-USE-LIT
	_ = Mock() // TAG-USE-CALL
}
`
	c12Mock = `//«annMock»
func Mock() int { return 1 }
`
)

var c12Tags = []string{"TAG-NEW-LIT", "TAG-NEW-ASSIGN", "TAG-USE-ASSIGN", "TAG-USE-LIT", "TAG-USE-CALL", "TAG-VAR-NEW", "TAG-VAR-ASSIGN", "TAG-M-ASSIGN", "TAG-M-RECV", "TAG-M-LOCAL"}
var c12Codes = []string{"IMM01", "CTOR01", "CTOR02", "TONL02"}

type c12File struct {
	name string
	src  string
}

func c12Verdicts(files []c12File, holes []nd.Hole) map[string]bool {
	var fs []nd.File
	for _, f := range files {
		fs = append(fs, nd.File{Pkg: "zzmod/d", Name: f.name, Src: f.src})
	}
	prog := nd.LoadProgram(fs, holes)
	res := Analyze(prog, config.Default(), "zzmod/d", Facts{}, "imm", "ctor", "tonl")
	out := map[string]bool{}
	for _, f := range files {
		for _, tag := range c12Tags {
			if indexOf(f.src, tag) < 0 {
				continue
			}
			line := nd.LineOf(f.src, tag)
			for _, code := range c12Codes {
				hit := false
				for _, d := range res.Diags {
					if nd.And(d.File == "/zz/zzmod/d/"+f.name, d.Line == line, d.Code == code) {
						hit = true
					}
				}
				out[tag+"/"+code] = hit
			}
		}
	}
	// diagnostics on untagged lines would be a harness defect: count them
	out["#diags"] = len(res.Diags) >= 0
	return out
}

// ZZC12Layout: the same declarations (annotations symbolic) laid out in seven ways — canonical order, reversed order,
// split over two files with blank lines and ordinary comments inserted, local variables consistently renamed — receive the
// same (statement tag, code) verdicts.
func ZZC12Layout() {
	annT := nd.EnumPad("annT", " @immutable", " plain")
	ctor := nd.EnumPad("ctor", " @constructor NewT", " @constructor Use", " plain")
	annMock := nd.EnumPad("annMock", " @testonly", " plain")
	holes := []nd.Hole{{"annT", annT}, {"ctor", ctor}, {"annMock", annMock}}
	pk := "package d\n\n"
	base := c12Verdicts([]c12File{{"a.go", pk + c12T + "\n" + c12Mock + "\n" + c12New + "\n" + c12Use + "\n" + c12Var + "\n" + c12M}}, holes)
	layouts := [][]c12File{
		{{"a.go", pk + c12M + "\n" + c12Var + "\n" + c12Use + "\n" + c12New + "\n" + c12Mock + "\n" + c12T}},
		{{"a.go", pk + c12Var + "\n\n\n// an ordinary comment\n" + c12Use + "\n/* block\n   comment */\n\n" + c12Mock}, {"b.go", pk + "// leading remark\n\n" + c12M + "\n\n\n" + c12T + "\n" + c12New}},
		{{"z.go", pk + c12New + "\n" + c12T}, {"a.go", pk + c12Use + "\n" + c12Mock + "\n" + c12M + "\n" + c12Var}},
		{{"a.go", pk + c12T + "\n" + c12Mock + "\n" + c12New + "\n" + c12UseRenamed + "\n" + c12Var + "\n" + c12MRenamed}},
		// the constructor is the LAST declaration of the first file, the next file STARTS with the package-level initialiser
		{{"a.go", pk + c12T + "\n" + c12Mock + "\n" + c12New}, {"b.go", pk + c12Var + "\n" + c12Use + "\n" + c12M}},
		{{"a.go", pk + c12T + "\n" + c12Mock + "\n" + c12Use}, {"b.go", pk + c12Var + "\n" + c12New + "\n" + c12M}},
	}
	for _, lay := range layouts {
		got := c12Verdicts(lay, holes)
		for _, tag := range c12Tags {
			for _, code := range c12Codes {
				nd.Assert(got[tag+"/"+code] == base[tag+"/"+code], "same verdict for every (statement, code) under every layout")
			}
		}
	}
}

const c12OneLine = `package d

//«annT»
type T struct {
	f int
}

func Reset(t *T, hard bool) {
	if hard { t.f = 0 } else { t.f = -1 } // TAG-ONELINE
	t.f = 1; t.f = 1 // TAG-TWICE
}
`

const c12Formatted = `package d

//«annT»
type T struct {
	f int
}

func Reset(t *T, hard bool) {
	if hard {
		t.f = 0 // TAG-A
	} else {
		t.f = -1 // TAG-B
	}
	t.f = 1 // TAG-C
	t.f = 1 // TAG-D
}
`

// ZZC12Gofmt: two writes that an unformatted source keeps on one physical line are two reported statements, exactly as
// after gofmt has put them on separate lines.
func ZZC12Gofmt() {
	annT := nd.EnumPad("annT", " @immutable", " plain")
	holes := []nd.Hole{{"annT", annT}}
	imm := nd.HasPrefix(annT, " @immutable")
	count := func(src string, tags ...string) int {
		prog := nd.LoadProgram([]nd.File{{Pkg: "zzmod/d", Name: "d.go", Src: src}}, holes)
		res := Analyze(prog, config.Default(), "zzmod/d", Facts{}, "imm")
		n := 0
		for _, d := range res.Diags {
			for _, tag := range tags {
				if d.Line == nd.LineOf(src, tag) && d.Code == "IMM01" {
					n++
				}
			}
		}
		return n
	}
	nd.Assert(count(c12OneLine, "TAG-ONELINE") == count(c12Formatted, "TAG-A", "TAG-B"), "if/else written on one line: as many reports as after gofmt")
	nd.Assert(count(c12OneLine, "TAG-TWICE") == count(c12Formatted, "TAG-C", "TAG-D"), "two statements separated by ';': as many reports as after gofmt")
	nd.Assert((count(c12Formatted, "TAG-A", "TAG-B", "TAG-C", "TAG-D") == 4) == imm, "formatted version: one report per write")
}

const c12NoteBase = `package d

//«annT»
type T struct {
	f int
}

func NewT() *T { return &T{} }

var (
	x = []T{
		{f: 1}, // TAG-X
		//«ign»
	}
	y = T{} // TAG-Y
)

func Use(t *T) {
	if t != nil {
		t.f = 1 // TAG-IN
		//«ign»
	}
	t.f = 2 // TAG-AFTER
}
`

const c12NoteAdded = `package d

//«annT»
type T struct {
	f int
}

func NewT() *T { return &T{} }

var (
	x = []T{
		{f: 1}, // TAG-X
		//«ign»
	} // an ordinary remark behind the closing brace
	y = T{} // TAG-Y
)

func Use(t *T) {
	if t != nil {
		t.f = 1 // TAG-IN
		//«ign»
	} // an ordinary remark behind the closing brace
	t.f = 2 // TAG-AFTER
}
`

// ZZC12TrailingNote: an ordinary comment added behind a closing brace does not change any verdict — also when the last thing
// inside the braces is a stand-alone @ignore marker (whatever that marker covers, it covers the same with and without the remark).
func ZZC12TrailingNote() {
	annT := nd.EnumPad("annT", " @constructor NewT", " @immutable", " plain")
	// the marker is pinned (one path per spelling): a reader that parses the comment byte by byte then runs on concrete text
	ign := nd.PinStr(nd.EnumPad("ign", " @ignore CTOR01", " @ignore IMM01", " @ignore ALL", " plain"))
	holes := []nd.Hole{{"annT", annT}, {"ign", ign}}
	count := func(src, tag string) int {
		prog := nd.LoadProgram([]nd.File{{Pkg: "zzmod/d", Name: "d.go", Src: src}}, holes)
		res := Analyze(prog, config.Default(), "zzmod/d", Facts{}, "imm", "ctor")
		n := 0
		for _, d := range res.Diags {
			if d.Line == nd.LineOf(src, tag) {
				n++
			}
		}
		return n
	}
	for _, tag := range []string{"TAG-X", "TAG-Y", "TAG-IN", "TAG-AFTER"} {
		nd.Assert(count(c12NoteBase, tag) == count(c12NoteAdded, tag), "an ordinary comment behind a closing brace changes no verdict")
	}
	plainIgn := nd.HasPrefix(ign, " plain")
	nd.Assert(nd.Or(nd.Not(plainIgn), (count(c12NoteBase, "TAG-Y") == 1) == nd.HasPrefix(annT, " @constructor")), "without markers: CTOR01 on y iff T is annotated")
	nd.Assert(nd.Or(nd.Not(plainIgn), (count(c12NoteBase, "TAG-AFTER") == 1) == nd.HasPrefix(annT, " @immutable")), "without markers: IMM01 on the write iff T is annotated")
}

const c12SrcGroup = `package d

//«g0»
type (
	A struct{ X int }
	//«g1»
	B struct{ Y int }
)

// a second group: only the FIRST member carries a doc of its own; it belongs to that member alone
type (
	//«g1»
	C struct{ Z int }
	D struct{ W int }
	E struct{ V int }
)

func Write(a *A, b *B) {
	a.X = 1 // GA
	b.Y = 2 // GB
}

func Write2(c *C, d *D, e *E) {
	c.Z = 1 // GC
	d.W = 2 // GD
	e.V = 3 // GE
}
`

// ZZC12GroupDoc: an ordinary comment inserted above a member of an annotated type ( ... ) group does not change the verdicts:
// the group's doc applies to every member, a member's own doc adds to it.
func ZZC12GroupDoc() {
	g0 := nd.EnumPad("g0", " @immutable", " plain")
	g1 := nd.EnumPad("g1", " B is the second one", " plain", " @immutable", " see @immutable above")
	prog := nd.LoadProgram([]nd.File{{Pkg: "zzmod/d", Name: "d.go", Src: c12SrcGroup}}, []nd.Hole{{Name: "g0", Value: g0}, {Name: "g1", Value: g1}})
	res := Analyze(prog, config.Default(), "zzmod/d", Facts{}, "imm")
	grp := nd.HasPrefix(g0, " @immutable")
	own := nd.HasPrefix(g1, " @immutable")
	f := "/zz/zzmod/d/d.go"
	CheckExact(res.Diags, []Expect{
		{f, nd.LineOf(c12SrcGroup, "GA"), "IMM01", grp},
		{f, nd.LineOf(c12SrcGroup, "GB"), "IMM01", nd.Or(grp, own)},
		{f, nd.LineOf(c12SrcGroup, "GC"), "IMM01", own},
		// GD, GE: nothing — a member's own doc does not reach the members after it
	}, "C12 ordinary comments inside an annotated type group")
}
