package zzh

import (
	"go/token"

	"golang.org/x/tools/go/analysis"

	"github.com/a14e/gogreement/src/config"
	"github.com/a14e/gogreement/src/ignore"
	"github.com/a14e/gogreement/src/zzverif/nd"
)

// frozen reference: does a marker's code list (one of the fixed spellings below) match diagnostic code c?
// (ALL > category > code, case-insensitive; unknown tokens and other categories match nothing)
func c07Category(code string) string {
	r := ""
	r = nd.IteStr(nd.Or(code == "IMM01", code == "IMM02", code == "IMM03", code == "IMM04"), "IMM", r)
	r = nd.IteStr(nd.Or(code == "CTOR01", code == "CTOR02", code == "CTOR03"), "CTOR", r)
	r = nd.IteStr(nd.Or(code == "TONL01", code == "TONL02", code == "TONL03"), "TONL", r)
	r = nd.IteStr(nd.Or(code == "PKGO01", code == "PKGO02", code == "PKGO03"), "PKGO", r)
	r = nd.IteStr(nd.Or(code == "IMPL01", code == "IMPL02", code == "IMPL03"), "IMPL", r)
	return r
}

// spellings of the marker text and the upper-cased tokens they carry
var c07Spellings = []string{" @ignore ctor, Imm01 legacy", " @ignore IMM01", " @ignore imm01, Ctor02 because", " @ignore IMM", " @ignore all", " @ignore XYZ9,", " @ignore TONL", " @ignored IMM01", " ignore IMM01", " plain"}

func c07Tokens(spelling string) (a, b string) {
	a, b = "", ""
	a = nd.IteStr(nd.HasPrefix(spelling, " @ignore IMM01"), "IMM01", a)
	a = nd.IteStr(nd.HasPrefix(spelling, " @ignore ctor, Imm01 legacy"), "CTOR", a)
	b = nd.IteStr(nd.HasPrefix(spelling, " @ignore ctor, Imm01 legacy"), "IMM01", b)
	a = nd.IteStr(nd.HasPrefix(spelling, " @ignore imm01, Ctor02 because"), "IMM01", a)
	b = nd.IteStr(nd.HasPrefix(spelling, " @ignore imm01, Ctor02 because"), "CTOR02", b)
	a = nd.IteStr(nd.HasPrefix(spelling, " @ignore IMM "), "IMM", a)
	a = nd.IteStr(nd.HasPrefix(spelling, " @ignore all"), "ALL", a)
	a = nd.IteStr(nd.HasPrefix(spelling, " @ignore XYZ9,"), "XYZ9", a)
	a = nd.IteStr(nd.HasPrefix(spelling, " @ignore TONL"), "TONL", a)
	return
}

func c07Matches(spelling, code string) bool {
	a, b := c07Tokens(spelling)
	cat := c07Category(code)
	m := func(t string) bool {
		return nd.And(t != "", nd.Or(t == "ALL", t == code, nd.And(cat != "", t == cat)))
	}
	return nd.Or(m(a), m(b))
}

const c07Src = `//«c0»
package d //«c15»

import "fmt"

//«c1»
func A() {
	x := 1 // A-FIRST
	//«c2»
	fmt.Println(x, // A-MULTI
		2) //«c11»
	y := 2 //«c3»
	_ = y
	if x > 0 { //«c4»
		x++ // A-INNER
	} //«c10»
	x = 7 // A-AFTER-IF
	//«c5»
} // A-END

//«c6»
type S struct {
	a int //«c7»
	//«c8»
	b int // S-B
} // S-END

var top = 1 //«c12»

var next = 2 // V-NEXT

func B() {
	z := 3
	//«c9»
	var q int // B-VAR
	_, _ = z, q
	for { //«c13»
		z++ // B-LOOP-FIRST
		break
	}
}

var ( //«c14»
	g1 = 1 // G-FIRST
	g2 = 2
) // B-END
`

type c07Scope struct {
	spelling   string
	start, end int // byte offsets, inclusive extent [start, end]
}

// ZZC07Scopes: any subset of eight placements carries an @ignore marker (spelling symbolic); for EVERY position of
// the file and every query code the suppression decision equals the documented scope of the markers.
func ZZC07Scopes() { c07ScopesN(-1, 2) }

// ZZC07Scopes3: any three placements active at a time (thorough tier).
func ZZC07Scopes3() { c07ScopesN(-1, 3) }

// ZZC07Spellings: one marker (at the declaration placement) with every code-list spelling.
func ZZC07Spellings() { c07Scopes(1) }

// ZZC07SpellingsStmt: the same for the statement placement.
func ZZC07SpellingsStmt() { c07Scopes(2) }

func c07Scopes(spellAt int) { c07ScopesN(spellAt, 2) }

func c07ScopesN(spellAt int, maxActive int) {
	holes := []nd.Hole{}
	sp := make([]string, 16)
	names := []string{"c0", "c1", "c2", "c3", "c4", "c5", "c6", "c7", "c8", "c9", "c10", "c11", "c12", "c13", "c14", "c15"}
	active := 0
	for i, n := range names {
		switch {
		case spellAt < 0:
			// placement-focused: any placement may carry the marker " @ignore IMM01"
			sp[i] = nd.EnumPad(n, " @ignore IMM01", " plain")
		case i == spellAt:
			sp[i] = nd.EnumPad(n, c07Spellings...)
		default:
			sp[i] = " plain"
		}
		holes = append(holes, nd.Hole{Name: n, Value: sp[i]})
		active += nd.IteInt(nd.HasPrefix(sp[i], " @ignore "), 1, 0)
	}
	nd.Assume(active <= maxActive) // stated bound on simultaneously active markers
	files := []nd.File{{Pkg: "zzmod/d", Name: "d.go", Src: c07Src}}
	prog := nd.LoadProgram(files, holes)
	var raw []analysis.Diagnostic
	pass := NewPass(prog, "zzmod/d", Facts{}, &raw)
	set := ignore.ReadIgnoreAnnotations(config.Default(), pass)

	off := func(needle string) int { return nd.OffsetOf(c07Src, holes, needle) }
	width := len(sp[0]) + 2 // "//" + padded spelling
	lineStart := func(needle string) int { return nd.LineStartOf(c07Src, holes, needle) }
	fileEnd := off(") // B-END") + 1
	scopes := []c07Scope{
		{sp[0], off("//«c0»"), fileEnd},                                      // before the package clause: whole file
		{sp[1], off("//«c1»"), off("} // A-END") + 1},                        // alone before a declaration: the whole declaration
		{sp[2], off("//«c2»"), off("2) //«c11»") + 2},                        // alone inside a body: the whole following statement
		{sp[3], lineStart("//«c3»"), off("//«c3»") + width},                  // trailing code: its own line
		{sp[4], lineStart("//«c4»"), off("//«c4»") + width},                  // trailing "if ... {": its own line
		{sp[5], off("//«c5»"), off("//«c5»") + width},                        // last in a body: nothing follows
		{sp[6], off("//«c6»"), off("} // S-END") + 1},                        // alone before a type declaration
		{sp[7], lineStart("//«c7»"), off("//«c7»") + width},                  // trailing a struct field
		{sp[8], off("//«c8»"), off("b int // S-B") + len("b int")},           // alone before a struct field: the field
		{sp[9], off("//«c9»"), off("var q int // B-VAR") + len("var q int")}, // alone before a local declaration (the comment is its Doc)
		{sp[10], lineStart("//«c10»"), off("//«c10»") + width},               // trailing a line that only closes a block: its own line
		{sp[11], lineStart("//«c11»"), off("//«c11»") + width},               // trailing the LAST line of a multi-line statement: that line only
		{sp[12], lineStart("//«c12»"), off("//«c12»") + width},               // trailing a one-line package-level declaration: its own line
		{sp[13], lineStart("//«c13»"), off("//«c13»") + width},               // trailing a line that only OPENS a construct (for {): its own line
		{sp[14], lineStart("//«c14»"), off("//«c14»") + width},               // trailing "var (": its own line
		{sp[15], lineStart("//«c15»"), off("//«c15»") + width},               // trailing the package clause: its own line
	}
	code := nd.Enum("q_code", "IMM01", "IMM02", "CTOR02", "CTOR01", "TONL01", "PKGO03", "IMPL02")
	qoff := nd.Int("q_offset")
	nd.Assume(0 <= qoff)
	nd.Assume(qoff <= fileEnd+2)
	want := false
	for _, s := range scopes {
		want = nd.Or(want, nd.And(c07Matches(s.spelling, code), s.start <= qoff, qoff <= s.end))
	}
	nd.Known("C07/statement-scope-ends-at-statement-start", nd.And(nd.HasPrefix(sp[2], " @ignore "), off("//«c2»")+width < qoff, qoff <= off("2) //«c11»")+2))
	nd.Known("C07/trailing-marker-on-package-level-declaration", nd.HasPrefix(sp[12], " @ignore "))
	got := set.Contains(code, prog.PosOf("/zz/zzmod/d/d.go", qoff))
	nd.Observe("got", got)
	nd.Assert(got == want, "suppressed iff a matching marker's documented scope contains the position")
	_ = token.NoPos
}

const c07SrcRD = `package d

// @testonly
// @packageonly w
type Helper struct{}

// @immutable
type T struct {
	F int
}

// @packageonly w
func Only() {}
`

const c07SrcRU2 = `package u

import "zzmod/d"

type Holder struct {
	h d.Helper //«j1»
}

func Param(h d.Helper) { //«j2»
}

func Lit() {
	_ = d.Helper{} // J-LIT
}
`

// a second file of package u: the first use of the type is a parameter on its own line of a multi-line signature
const c07SrcRU3 = `package u

import "zzmod/d"

func Multi(
	a d.Helper, //«j3»
	b d.Helper, // J-PARAM2
) {
}
`

// ZZC07RereportField: the first uses of the once-per-file type are a struct field and a parameter (other AST paths than
// literals and var declarations); a suppressed use must not swallow the report.
func ZZC07RereportField() {
	j1 := nd.EnumPad("j1", " @ignore TONL01", " @ignore PKGO01", " @ignore ALL", " plain")
	j2 := nd.EnumPad("j2", " @ignore TONL", " @ignore PKGO", " plain")
	j3 := nd.EnumPad("j3", " @ignore TONL01", " @ignore PKGO", " @ignore IMM01", " plain")
	holes := []nd.Hole{{"j1", j1}, {"j2", j2}, {"j3", j3}}
	files := []nd.File{{Pkg: "zzmod/d", Name: "d.go", Src: c07SrcRD}, {Pkg: "zzmod/u", Name: "u.go", Src: c07SrcRU2}, {Pkg: "zzmod/u", Name: "u3.go", Src: c07SrcRU3}}
	prog := nd.LoadProgram(files, holes)
	cfg := config.Default()
	rd := Analyze(prog, cfg, "zzmod/d", Facts{}, "tonl", "pkgo")
	ru := Analyze(prog, cfg, "zzmod/u", Facts{"zzmod/d": &rd.Ann}, "tonl", "pkgo")
	s1T := nd.Or(nd.HasPrefix(j1, " @ignore TONL01"), nd.HasPrefix(j1, " @ignore ALL"))
	s1P := nd.Or(nd.HasPrefix(j1, " @ignore PKGO01"), nd.HasPrefix(j1, " @ignore ALL"))
	s2T := nd.HasPrefix(j2, " @ignore TONL")
	s2P := nd.HasPrefix(j2, " @ignore PKGO")
	fu := "/zz/zzmod/u/u.go"
	src := c07SrcRU2
	l1, l2, l3 := nd.LineOf(src, "//«j1»"), nd.LineOf(src, "//«j2»"), nd.LineOf(src, "J-LIT")
	CheckExact(ru.Diags, []Expect{
		{fu, l1, "TONL01", nd.Not(s1T)},
		{fu, l2, "TONL01", nd.And(s1T, nd.Not(s2T))},
		{fu, l3, "TONL01", nd.And(s1T, s2T)},
		{fu, l1, "PKGO01", nd.Not(s1P)},
		{fu, l2, "PKGO01", nd.And(s1P, nd.Not(s2P))},
		{fu, l3, "PKGO01", nd.And(s1P, s2P)},
		// a marker trailing a parameter line of a multi-line signature covers that line: the report moves to the next parameter
		{"/zz/zzmod/u/u3.go", nd.LineOf(c07SrcRU3, "//«j3»"), "TONL01", nd.Not(nd.HasPrefix(j3, " @ignore TONL01"))},
		{"/zz/zzmod/u/u3.go", nd.LineOf(c07SrcRU3, "J-PARAM2"), "TONL01", nd.HasPrefix(j3, " @ignore TONL01")},
		{"/zz/zzmod/u/u3.go", nd.LineOf(c07SrcRU3, "//«j3»"), "PKGO01", nd.Not(nd.HasPrefix(j3, " @ignore PKGO"))},
		{"/zz/zzmod/u/u3.go", nd.LineOf(c07SrcRU3, "J-PARAM2"), "PKGO01", nd.HasPrefix(j3, " @ignore PKGO")},
	}, "C07 re-reporting when the first uses are a field and a parameter")
}

const c07SrcRU = `package u

import "zzmod/d"

func Use(t *d.T) {
	_ = d.Helper{} //«i1»
	//«i2»
	_ = d.Helper{} // USE2
	_ = d.Helper{} // USE3
	t.F = 1 //«i3»
	d.Only() //«i4»
	t.F = 2 // IMM-OTHER
}
`

// ZZC07Rereport: report-time filtering (IMM) and detection-time filtering with once-per-file re-reporting (TONL01, PKGO01):
// the report moves to the next unsuppressed use; every other diagnostic is unchanged.
func ZZC07Rereport() {
	i1 := nd.EnumPad("i1", " @ignore TONL01", " @ignore pkgo", " @ignore ALL", " @ignore IMM", " plain")
	i2 := nd.EnumPad("i2", " @ignore TONL", " @ignore PKGO01, TONL01", " @ignore CTOR", " plain")
	i3 := nd.EnumPad("i3", " @ignore IMM01", " @ignore IMM02", " @ignore imm", " plain")
	i4 := nd.EnumPad("i4", " @ignore PKGO02", " @ignore PKGO03", " @ignore TONL", " plain")
	holes := []nd.Hole{{"i1", i1}, {"i2", i2}, {"i3", i3}, {"i4", i4}}
	files := []nd.File{{Pkg: "zzmod/d", Name: "d.go", Src: c07SrcRD}, {Pkg: "zzmod/u", Name: "u.go", Src: c07SrcRU}}
	prog := nd.LoadProgram(files, holes)
	cfg := config.Default()
	rd := Analyze(prog, cfg, "zzmod/d", Facts{}, "imm", "tonl", "pkgo")
	ru := Analyze(prog, cfg, "zzmod/u", Facts{"zzmod/d": &rd.Ann}, "imm", "tonl", "pkgo")

	s1T := nd.Or(nd.HasPrefix(i1, " @ignore TONL01"), nd.HasPrefix(i1, " @ignore ALL"))
	s1P := nd.Or(nd.HasPrefix(i1, " @ignore pkgo"), nd.HasPrefix(i1, " @ignore ALL"))
	s2T := nd.Or(nd.HasPrefix(i2, " @ignore TONL "), nd.HasPrefix(i2, " @ignore PKGO01, TONL01"))
	s2P := nd.HasPrefix(i2, " @ignore PKGO01, TONL01")
	s3 := nd.Or(nd.HasPrefix(i3, " @ignore IMM01"), nd.HasPrefix(i3, " @ignore imm"))
	s4 := nd.HasPrefix(i4, " @ignore PKGO02")
	fu := "/zz/zzmod/u/u.go"
	src := c07SrcRU
	l1, l2, l3 := nd.LineOf(src, "//«i1»"), nd.LineOf(src, "USE2"), nd.LineOf(src, "USE3")
	CheckExact(ru.Diags, []Expect{
		{fu, l1, "TONL01", nd.Not(s1T)},
		{fu, l2, "TONL01", nd.And(s1T, nd.Not(s2T))},
		{fu, l3, "TONL01", nd.And(s1T, s2T)},
		{fu, l1, "PKGO01", nd.Not(s1P)},
		{fu, l2, "PKGO01", nd.And(s1P, nd.Not(s2P))},
		{fu, l3, "PKGO01", nd.And(s1P, s2P)},
		{fu, nd.LineOf(src, "//«i3»"), "IMM01", nd.Not(s3)},
		{fu, nd.LineOf(src, "//«i4»"), "PKGO02", nd.Not(s4)},
		{fu, nd.LineOf(src, "IMM-OTHER"), "IMM01", true},
	}, "C07 re-reporting")
}

// file-level markers that are NOT the package clause's own doc comment: separated from it by a blank line, by an
// ordinary comment group, or by a build constraint
const c07SrcHead1 = `//«h0»

// Package d has a doc comment of its own.
package d

func A() int {
	x := 1
	return x
}

func B() int { return 2 }

var Tail = 3 // H-END
`

const c07SrcHead2 = `//«h0»

//go:build !never

package d

func A() int {
	x := 1
	return x
}

func B() int { return 2 }

var Tail = 3 // H-END
`

const c07SrcHead3 = `// Copyright header.
//«h0»
// More header text.

package d

func A() int {
	x := 1
	return x
}

func B() int { return 2 }

var Tail = 3 // H-END
`

// ZZC07Header: a marker anywhere before the package clause covers the whole file, also when it is detached from the
// clause (blank line + package doc, build constraint, middle line of a detached header group).
func ZZC07Header() {
	v0 := nd.Int("header_variant")
	nd.Assume(0 <= v0)
	nd.Assume(v0 <= 2)
	variant := nd.Pin(v0)
	src := []string{c07SrcHead1, c07SrcHead2, c07SrcHead3}[variant]
	sp := nd.EnumPad("h0", c07Spellings...)
	holes := []nd.Hole{{Name: "h0", Value: sp}}
	prog := nd.LoadProgram([]nd.File{{Pkg: "zzmod/d", Name: "d.go", Src: src}}, holes)
	var raw []analysis.Diagnostic
	pass := NewPass(prog, "zzmod/d", Facts{}, &raw)
	set := ignore.ReadIgnoreAnnotations(config.Default(), pass)
	start := nd.OffsetOf(src, holes, "//«h0»")
	fileEnd := nd.OffsetOf(src, holes, "3 // H-END") + 1
	code := nd.Enum("q_code", "IMM01", "IMM02", "CTOR02", "CTOR01", "TONL01", "PKGO03", "IMPL02")
	qoff := nd.Int("q_offset")
	nd.Assume(0 <= qoff)
	nd.Assume(qoff <= fileEnd+2)
	want := nd.And(c07Matches(sp, code), start <= qoff, qoff <= fileEnd)
	got := set.Contains(code, prog.PosOf("/zz/zzmod/d/d.go", qoff))
	nd.Assert(got == want, "a marker before the package clause covers exactly the whole file")
}

const c07SrcFuncLine = `package u

import "zzmod/d"

func Multi(s *d.S) { //«f1»
	_ = d.Mock() // FL-CALL
	s.Reset() // FL-MCALL
	_ = d.Helper{} // FL-LIT
}

func After() {
	_ = d.Mock() // FL-AFTER
}
`

const c07SrcFuncLineD = `package d

// @testonly
type Helper struct{}

// @testonly
func Mock() int { return 1 }

type S struct{}

// @testonly
func (s *S) Reset() {}
`

// ZZC07FuncLine: a marker trailing the 'func' line of a multi-line function covers that line only — the diagnostics
// in the body stay, whatever the marker's codes (a category or ALL as well as specific codes).
func ZZC07FuncLine() {
	f1 := nd.EnumPad("f1", " @ignore TONL", " @ignore ALL", " @ignore TONL02", " @ignore tonl01, TONL03", " plain")
	holes := []nd.Hole{{Name: "f1", Value: f1}}
	prog := nd.LoadProgram([]nd.File{{Pkg: "zzmod/d", Name: "d.go", Src: c07SrcFuncLineD}, {Pkg: "zzmod/u", Name: "u.go", Src: c07SrcFuncLine}}, holes)
	cfg := config.Default()
	rd := Analyze(prog, cfg, "zzmod/d", Facts{}, "tonl")
	ru := Analyze(prog, cfg, "zzmod/u", Facts{"zzmod/d": &rd.Ann}, "tonl")
	fu := "/zz/zzmod/u/u.go"
	CheckExact(ru.Diags, []Expect{
		{fu, nd.LineOf(c07SrcFuncLine, "FL-CALL"), "TONL02", true},
		{fu, nd.LineOf(c07SrcFuncLine, "FL-MCALL"), "TONL03", true},
		{fu, nd.LineOf(c07SrcFuncLine, "FL-LIT"), "TONL01", true},
		{fu, nd.LineOf(c07SrcFuncLine, "FL-AFTER"), "TONL02", true},
	}, "C07 marker trailing the func line covers that line only")
}

const c07SrcAfterBlock = `package d

//«annT»
type T struct {
	f int
}

var (
	first = T{f: 1} /* primary */ //«ign»
	second = T{f: 2} // AB-SECOND
)

func Use(t *T) {
	t.f = 1 /* reset */ //«ign»
	t.f = 2 // AB-NEXT
	t.f = 3 /* a */ /* b */ //«ign»
	t.f = 4 // AB-LAST
}
`

// ZZC07AfterBlockComment: a marker appended to a line that already ends in a general comment (so that the parser puts both
// comments into one group) still trails the code of its line: it covers that line and nothing after it.
func ZZC07AfterBlockComment() {
	annT := nd.EnumPad("annT", " @immutable", " @constructor NewT", " plain")
	ign := nd.EnumPad("ign", " @ignore IMM01", " @ignore CTOR01", " @ignore ALL", " plain")
	prog := nd.LoadProgram([]nd.File{{Pkg: "zzmod/d", Name: "d.go", Src: c07SrcAfterBlock}}, []nd.Hole{{"annT", annT}, {"ign", ign}})
	res := Analyze(prog, config.Default(), "zzmod/d", Facts{}, "imm", "ctor")
	imm := nd.HasPrefix(annT, " @immutable")
	ctor := nd.HasPrefix(annT, " @constructor")
	offI := nd.Or(nd.HasPrefix(ign, " @ignore IMM01"), nd.HasPrefix(ign, " @ignore ALL"))
	offC := nd.Or(nd.HasPrefix(ign, " @ignore CTOR01"), nd.HasPrefix(ign, " @ignore ALL"))
	f := "/zz/zzmod/d/d.go"
	src := c07SrcAfterBlock
	CheckExact(res.Diags, []Expect{
		{f, nd.LineOf(src, "first = T{f: 1}"), "CTOR01", nd.And(ctor, nd.Not(offC))},
		{f, nd.LineOf(src, "AB-SECOND"), "CTOR01", ctor},
		{f, nd.LineOf(src, "t.f = 1 /* reset */"), "IMM01", nd.And(imm, nd.Not(offI))},
		{f, nd.LineOf(src, "AB-NEXT"), "IMM01", imm},
		{f, nd.LineOf(src, "t.f = 3 /* a */"), "IMM01", nd.And(imm, nd.Not(offI))},
		{f, nd.LineOf(src, "AB-LAST"), "IMM01", imm},
	}, "C07 marker behind a general comment on the same line")
}
