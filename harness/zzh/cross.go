package zzh

import (
	"github.com/a14e/gogreement/src/config"
	"github.com/a14e/gogreement/src/zzverif/nd"
)

const crossSrcD = `package d

//«annT»
//«ctor»
type T struct {
	F int
	//«mut»
	M int
	S []int
}

func NewT() *T {
	t := &T{} // D-CTOR-LIT
	t.F = 1 // D-CTOR-ASSIGN
	return t
}
`

const crossSrcU = `package u

import "zzmod/d"

func NewT() *d.T {
	t := &d.T{} // U-SAMENAME-LIT
	t.F = 1 // U-SAMENAME-ASSIGN
	t.F |= 2 // U-SAMENAME-COMPOUND
	t.S[0] = 3 // U-SAMENAME-INDEX
	t.F++ // U-SAMENAME-INCDEC
	n := new(d.T) // U-SAMENAME-NEW
	var z d.T // U-SAMENAME-VAR
	_, _ = n, z
	return t
}

func Use(t *d.T, v d.T) {
	t.F = 2 // U-ASSIGN
	t.F «op» 3 // U-COMPOUND
	t.M = 4 // U-MUTABLE
	t.S[0] = 5 // U-INDEX
	v.F++ // U-INCDEC
	_ = d.T{} // U-LIT
	var z d.T // U-VAR
	_ = z
	_ = new(d.T) // U-NEW
	var p *d.T // U-PTRVAR
	_ = p
	_ = t.F // U-READ
}
`

// ZZCrossImmCtor: the type lives in package d, the uses in the directly importing package u; d's annotations reach u
// as a package fact.  A function of u that merely shares a constructor's name is not "a constructor of the type's own package".
func ZZCrossImmCtor() {
	annT := nd.EnumPad("annT", " @immutable", " plain")
	ctor := nd.EnumPad("ctor", " @constructor NewT", " plain")
	mut := nd.EnumPad("mut", " @mutable", " plain")
	op := nd.EnumPad("op", "+=", "<<=", "&^=")
	holes := []nd.Hole{{"annT", annT}, {"ctor", ctor}, {"mut", mut}, {"op", op}}
	files := []nd.File{{Pkg: "zzmod/d", Name: "d.go", Src: crossSrcD}, {Pkg: "zzmod/u", Name: "u.go", Src: crossSrcU}}
	prog := nd.LoadProgram(files, holes)
	cfg := config.Default()
	rd := Analyze(prog, cfg, "zzmod/d", Facts{}, "imm", "ctor")
	ru := Analyze(prog, cfg, "zzmod/u", Facts{"zzmod/d": &rd.Ann}, "imm", "ctor")

	imm := nd.HasPrefix(annT, " @immutable")
	hasCtor := nd.HasPrefix(ctor, " @constructor NewT")
	mutable := nd.HasPrefix(mut, " @mutable")
	fd, fu := "/zz/zzmod/d/d.go", "/zz/zzmod/u/u.go"
	CheckExact(rd.Diags, []Expect{
		{fd, nd.LineOf(crossSrcD, "D-CTOR-ASSIGN"), "IMM01", nd.And(imm, nd.Not(hasCtor))},
	}, "cross: declaring package")
	nd.Known("C01/same-name-function-in-importer", nd.And(hasCtor))
	CheckExact(ru.Diags, []Expect{
		{fu, nd.LineOf(crossSrcU, "U-SAMENAME-LIT"), "CTOR01", hasCtor},
		{fu, nd.LineOf(crossSrcU, "U-SAMENAME-ASSIGN"), "IMM01", imm},
		{fu, nd.LineOf(crossSrcU, "U-SAMENAME-COMPOUND"), "IMM02", imm},
		{fu, nd.LineOf(crossSrcU, "U-SAMENAME-INDEX"), "IMM04", imm},
		{fu, nd.LineOf(crossSrcU, "U-SAMENAME-INCDEC"), "IMM03", imm},
		{fu, nd.LineOf(crossSrcU, "U-SAMENAME-NEW"), "CTOR02", hasCtor},
		{fu, nd.LineOf(crossSrcU, "U-SAMENAME-VAR"), "CTOR03", hasCtor},
		{fu, nd.LineOf(crossSrcU, "U-ASSIGN"), "IMM01", imm},
		{fu, nd.LineOf(crossSrcU, "U-COMPOUND"), "IMM02", imm},
		{fu, nd.LineOf(crossSrcU, "U-MUTABLE"), "IMM01", nd.And(imm, nd.Not(mutable))},
		{fu, nd.LineOf(crossSrcU, "U-INDEX"), "IMM04", imm},
		{fu, nd.LineOf(crossSrcU, "U-INCDEC"), "IMM03", imm},
		{fu, nd.LineOf(crossSrcU, "U-LIT"), "CTOR01", hasCtor},
		{fu, nd.LineOf(crossSrcU, "U-VAR"), "CTOR03", hasCtor},
		{fu, nd.LineOf(crossSrcU, "U-NEW"), "CTOR02", hasCtor},
	}, "cross: importing package")
}
