package zzh

import (
	"go/token"

	"github.com/a14e/gogreement/src/annotations"
	"github.com/a14e/gogreement/src/config"
	"github.com/a14e/gogreement/src/zzverif/nd"
)

const crossSrcD = `package d

//«annT»
//«ctor»
type T struct {
	F int
	//«mut»
	M int
	S []int
}

func NewT() *T {
	t := &T{} // D-CTOR-LIT
	t.F = 1 // D-CTOR-ASSIGN
	return t
}
`

const crossSrcU = `package u

import "zzmod/d"

// the importer's OWN type T with its own constructor NewT: identity, not the name, decides
//«uctor»
type T struct{ g int }

func NewT() *d.T {
	t := &d.T{} // U-SAMENAME-LIT
	t.F = 1 // U-SAMENAME-ASSIGN
	t.F |= 2 // U-SAMENAME-COMPOUND
	t.S[0] = 3 // U-SAMENAME-INDEX
	t.F++ // U-SAMENAME-INCDEC
	n := new(d.T) // U-SAMENAME-NEW
	var z d.T // U-SAMENAME-VAR
	_, _ = n, z
	return t
}

func Use(t *d.T, v d.T) {
	t.F = 2 // U-ASSIGN
	t.F «op» 3 // U-COMPOUND
	t.M = 4 // U-MUTABLE
	t.S[0] = 5 // U-INDEX
	v.F++ // U-INCDEC
	_ = d.T{} // U-LIT
	var z d.T // U-VAR
	_ = z
	_ = new(d.T) // U-NEW
	var p *d.T // U-PTRVAR
	_ = p
	_ = t.F // U-READ
}
`

// ZZCrossImmCtor: the type lives in package d, the uses in the directly importing package u; d's annotations reach u
// as a package fact.  A function of u that merely shares a constructor's name is not "a constructor of the type's own package".
func ZZCrossImmCtor() {
	annT := nd.EnumPad("annT", " @immutable", " plain")
	ctor := nd.EnumPad("ctor", " @constructor NewT", " plain")
	mut := nd.EnumPad("mut", " @mutable", " plain")
	op := nd.EnumPad("op", "+=", "<<=", "&^=")
	holes := []nd.Hole{{"annT", annT}, {"ctor", ctor}, {"mut", mut}, {"op", op}, {"uctor", " @constructor NewT"}}
	files := []nd.File{{Pkg: "zzmod/d", Name: "d.go", Src: crossSrcD}, {Pkg: "zzmod/u", Name: "u.go", Src: crossSrcU}}
	prog := nd.LoadProgram(files, holes)
	cfg := config.Default()
	rd := Analyze(prog, cfg, "zzmod/d", Facts{}, "imm", "ctor")
	ru := Analyze(prog, cfg, "zzmod/u", Facts{"zzmod/d": &rd.Ann}, "imm", "ctor")

	imm := nd.HasPrefix(annT, " @immutable")
	hasCtor := nd.HasPrefix(ctor, " @constructor NewT")
	mutable := nd.HasPrefix(mut, " @mutable")
	fd, fu := "/zz/zzmod/d/d.go", "/zz/zzmod/u/u.go"
	CheckExact(rd.Diags, []Expect{
		{fd, nd.LineOf(crossSrcD, "D-CTOR-ASSIGN"), "IMM01", nd.And(imm, nd.Not(hasCtor))},
	}, "cross: declaring package")
	nd.Known("C01/same-name-function-in-importer", nd.And(hasCtor))
	CheckExact(ru.Diags, []Expect{
		{fu, nd.LineOf(crossSrcU, "U-SAMENAME-LIT"), "CTOR01", hasCtor},
		{fu, nd.LineOf(crossSrcU, "U-SAMENAME-ASSIGN"), "IMM01", imm},
		{fu, nd.LineOf(crossSrcU, "U-SAMENAME-COMPOUND"), "IMM02", imm},
		{fu, nd.LineOf(crossSrcU, "U-SAMENAME-INDEX"), "IMM04", imm},
		{fu, nd.LineOf(crossSrcU, "U-SAMENAME-INCDEC"), "IMM03", imm},
		{fu, nd.LineOf(crossSrcU, "U-SAMENAME-NEW"), "CTOR02", hasCtor},
		{fu, nd.LineOf(crossSrcU, "U-SAMENAME-VAR"), "CTOR03", hasCtor},
		{fu, nd.LineOf(crossSrcU, "U-ASSIGN"), "IMM01", imm},
		{fu, nd.LineOf(crossSrcU, "U-COMPOUND"), "IMM02", imm},
		{fu, nd.LineOf(crossSrcU, "U-MUTABLE"), "IMM01", nd.And(imm, nd.Not(mutable))},
		{fu, nd.LineOf(crossSrcU, "U-INDEX"), "IMM04", imm},
		{fu, nd.LineOf(crossSrcU, "U-INCDEC"), "IMM03", imm},
		{fu, nd.LineOf(crossSrcU, "U-LIT"), "CTOR01", hasCtor},
		{fu, nd.LineOf(crossSrcU, "U-VAR"), "CTOR03", hasCtor},
		{fu, nd.LineOf(crossSrcU, "U-NEW"), "CTOR02", hasCtor},
	}, "cross: importing package")
}

// two packages generated from one template: every annotation sits at the same byte offset in both
const crossSrcTmpl = `package «PKG»

// @immutable
// @constructor NewT
type T struct {
	F int
	// @mutable
	M int
}

func NewT() *T { return &T{} }

// @testonly
func Mock() int { return 1 }

// @packageonly w
func Internal() {}
`

const crossSrcTwo = `package u

import (
	"zzmod/g1"
	"zzmod/g2"
)

func Use(a *g1.T, b *g2.T) {
	a.F = 1 // G1-F
	a.M = 2 // G1-M
	b.F = 3 // G2-F
	b.M = 4 // G2-M
	_ = g1.T{} // G1-LIT
	_ = g2.T{} // G2-LIT
	_ = g1.Mock() // G1-MOCK
	_ = g2.Mock() // G2-MOCK
	g1.Internal() // G1-INT
	g2.Internal() // G2-INT
}
`

// PosCollapsed returns a copy of the annotations in which every recorded position is the same value — what an importer
// sees when every package was parsed in a process (file set) of its own and the packages come from one template.
func PosCollapsed(a *annotations.PackageAnnotations, pos token.Pos) *annotations.PackageAnnotations {
	out := &annotations.PackageAnnotations{}
	for _, x := range a.ImplementsAnnotations {
		x.OnTypePos = pos
		out.ImplementsAnnotations = append(out.ImplementsAnnotations, x)
	}
	for _, x := range a.ConstructorAnnotations {
		x.OnTypePos = pos
		out.ConstructorAnnotations = append(out.ConstructorAnnotations, x)
	}
	for _, x := range a.ImmutableAnnotations {
		x.OnTypePos = pos
		out.ImmutableAnnotations = append(out.ImmutableAnnotations, x)
	}
	for _, x := range a.TestonlyAnnotations {
		x.Pos = pos
		out.TestonlyAnnotations = append(out.TestonlyAnnotations, x)
	}
	for _, x := range a.MutableAnnotations {
		x.Pos = pos
		out.MutableAnnotations = append(out.MutableAnnotations, x)
	}
	for _, x := range a.PackageOnlyAnnotations {
		x.Pos = pos
		out.PackageOnlyAnnotations = append(out.PackageOnlyAnnotations, x)
	}
	return out
}

// ZZC06FactPos: positions recorded inside facts mean nothing to an importer (each driver/process has its own file set):
// the importer's diagnostics are the same with the in-process facts and with facts whose positions all coincide.
func ZZC06FactPos() {
	files := []nd.File{{Pkg: "zzmod/g1", Name: "g.go", Src: replaceAll(crossSrcTmpl, "«PKG»", "g1")}, {Pkg: "zzmod/g2", Name: "g.go", Src: replaceAll(crossSrcTmpl, "«PKG»", "g2")}, {Pkg: "zzmod/u", Name: "u.go", Src: crossSrcTwo}}
	prog := nd.LoadProgram(files, nil)
	cfg := config.Default()
	r1 := Analyze(prog, cfg, "zzmod/g1", Facts{}, "imm", "ctor", "tonl", "pkgo")
	r2 := Analyze(prog, cfg, "zzmod/g2", Facts{}, "imm", "ctor", "tonl", "pkgo")
	pos := token.Pos(nd.Int("collapsed_pos"))
	nd.Assume(0 <= int(pos))
	nd.Assume(int(pos) <= 1<<20)
	fu := "/zz/zzmod/u/u.go"
	exp := []Expect{
		{fu, nd.LineOf(crossSrcTwo, "G1-F"), "IMM01", true},
		{fu, nd.LineOf(crossSrcTwo, "G2-F"), "IMM01", true},
		{fu, nd.LineOf(crossSrcTwo, "G1-LIT"), "CTOR01", true},
		{fu, nd.LineOf(crossSrcTwo, "G2-LIT"), "CTOR01", true},
		{fu, nd.LineOf(crossSrcTwo, "G1-MOCK"), "TONL02", true},
		{fu, nd.LineOf(crossSrcTwo, "G2-MOCK"), "TONL02", true},
		{fu, nd.LineOf(crossSrcTwo, "G1-INT"), "PKGO02", true},
		{fu, nd.LineOf(crossSrcTwo, "G2-INT"), "PKGO02", true},
	}
	ru := Analyze(prog, cfg, "zzmod/u", Facts{"zzmod/g1": &r1.Ann, "zzmod/g2": &r2.Ann}, "imm", "ctor", "tonl", "pkgo")
	CheckExact(ru.Diags, exp, "C06 importer with in-process facts")
	rc := Analyze(prog, cfg, "zzmod/u", Facts{"zzmod/g1": PosCollapsed(&r1.Ann, pos), "zzmod/g2": PosCollapsed(&r2.Ann, pos)}, "imm", "ctor", "tonl", "pkgo")
	CheckExact(rc.Diags, exp, "C06 importer with facts whose positions coincide (separate file sets)")
}
