package zzh

import (
	"golang.org/x/tools/go/analysis"

	"github.com/a14e/gogreement/src/annotations"
	"github.com/a14e/gogreement/src/indexing"
	"github.com/a14e/gogreement/src/zzverif/nd"
)

const c06SrcU = `package u

import (
	_ "zzmod/e1"
	_ "zzmod/x/dup"
	_ "zzmod/e3"
	_ "zzmod/z/u"
	_ "zzmod/y/dup"
)
`

// ZZC06Merge: the importer-side indices are exactly the union of the local annotations and the facts of the DIRECT
// imports, each item filed under (declaring package path, name). Five imports; any subset of them exports a fact; the
// facts of e2 and e5 carry annotations with arbitrary (opaque) names, the others are empty.
func ZZC06Merge() {
	// e2 and e5 are two different packages with the SAME package name (dup); e4 has the importer's own name (u)
	paths := map[string]string{"e1": "zzmod/e1", "e2": "zzmod/x/dup", "e3": "zzmod/e3", "e4": "zzmod/z/u", "e5": "zzmod/y/dup"}
	names := map[string]string{"e1": "e1", "e2": "dup", "e3": "e3", "e4": "u", "e5": "dup"}
	files := []nd.File{}
	// e3 itself imports zzmod/deep: an INDIRECT dependency of u whose fact must not reach u's indices
	files = append(files, nd.File{Pkg: "zzmod/deep", Name: "deep.go", Src: "package deep\n"})
	for _, p := range []string{"e1", "e2", "e3", "e4", "e5"} {
		src := "package " + names[p] + "\n"
		if p == "e3" {
			src += "\nimport _ \"zzmod/deep\"\n"
		}
		files = append(files, nd.File{Pkg: paths[p], Name: "e.go", Src: src})
	}
	files = append(files, nd.File{Pkg: "zzmod/u", Name: "u.go", Src: c06SrcU})
	prog := nd.LoadProgram(files, nil)

	has := map[string]bool{}
	for _, p := range []string{"e1", "e2", "e3", "e4", "e5"} {
		has[paths[p]] = nd.Bool("fact_" + p)
	}
	// type names from a small alphabet with exported and unexported spellings (importers reach values of unexported
	// types through exported functions and variables), the other names opaque
	t2, c2, f2 := nd.Enum("e2_type", "T2", "hidden", "Q"), nd.Atom("e2_ctor"), nd.Atom("e2_field")
	t5, fn5 := nd.Enum("e5_type", "T2", "hidden5"), nd.Enum("e5_func", "Q", "mk")
	fact2 := annotations.PackageAnnotations{
		ImmutableAnnotations:   []annotations.ImmutableAnnotation{{OnType: t2}},
		ConstructorAnnotations: []annotations.ConstructorAnnotation{{OnType: t2, ConstructorNames: []string{c2}}},
		MutableAnnotations:     []annotations.MutableAnnotation{{OnType: t2, FieldName: f2}},
	}
	fact5 := annotations.PackageAnnotations{
		TestonlyAnnotations:    []annotations.TestOnlyAnnotation{{Kind: annotations.TestOnlyOnType, ObjectName: t5}, {Kind: annotations.TestOnlyOnFunc, ObjectName: fn5}},
		PackageOnlyAnnotations: []annotations.PackageOnlyAnnotation{{Kind: annotations.TestOnlyOnFunc, ObjectName: fn5, AllowedPackages: []string{"zzmod/y/dup", "w", "u"}}},
	}
	t4 := nd.Enum("e4_type", "t4", "Exported4")
	deepT := "DeepType"
	factDeep := annotations.PackageAnnotations{ImmutableAnnotations: []annotations.ImmutableAnnotation{{OnType: deepT}}, TestonlyAnnotations: []annotations.TestOnlyAnnotation{{Kind: annotations.TestOnlyOnType, ObjectName: deepT}}}
	fact4 := annotations.PackageAnnotations{ImmutableAnnotations: []annotations.ImmutableAnnotation{{OnType: t4}}}
	facts := Facts{"zzmod/e1": {}, "zzmod/x/dup": &fact2, "zzmod/e3": {}, "zzmod/z/u": &fact4, "zzmod/y/dup": &fact5}
	// the driver may well hold the indirect dependency's fact (the standalone driver inherits facts transitively)
	visible := Facts{"zzmod/deep": &factDeep}
	for k, v := range facts {
		if has[k] {
			visible[k] = v
		}
	}
	var raw []analysis.Diagnostic
	pass := NewPass(prog, "zzmod/u", visible, &raw)
	lt := nd.Enum("local_type", "Loc", "loc")
	local := annotations.PackageAnnotations{ImmutableAnnotations: []annotations.ImmutableAnnotation{{OnType: lt}}}

	imm := indexing.BuildImmutableTypesIndex[*annotations.ImmutableCheckerFact](pass, &local)
	ctor := indexing.BuildConstructorIndex[*annotations.ConstructorCheckerFact](pass, &local)
	mut := indexing.BuildMutableFieldsIndex[*annotations.ImmutableCheckerFact](pass, &local)
	tt := indexing.BuildTestOnlyTypesIndex[*annotations.TestOnlyCheckerFact](pass, &local)
	tf := indexing.BuildTestOnlyFuncsIndex[*annotations.TestOnlyCheckerFact](pass, &local)
	po := indexing.BuildPackageOnlyIndex[*annotations.PackageOnlyCheckerFact](pass, &local)

	// arbitrary query
	qp := nd.Enum("q_pkg", "zzmod/u", "zzmod/e1", "zzmod/x/dup", "zzmod/y/dup", "zzmod/z/u", "zzmod/other", "zzmod/deep")
	qn := nd.Enum("q_name", "T2", "hidden", "Q", "t4", "Exported4", "DeepType", "other")
	nd.Assume(nd.Or(lt == "Loc", lt == "loc"))
	qm := nd.Atom("q_member")
	e2 := has["zzmod/x/dup"]
	e5 := has["zzmod/y/dup"]
	e4 := has["zzmod/z/u"]
	nd.Assert(imm.Contains(qp, qn) == nd.Or(nd.And(qp == "zzmod/u", qn == lt), nd.And(e2, qp == "zzmod/x/dup", qn == t2), nd.And(e4, qp == "zzmod/z/u", qn == t4)), "immutable index = local + direct imports' facts, by declaring path")
	nd.Assert(ctor.Match(qp, qm, qn) == nd.And(e2, qp == "zzmod/x/dup", qn == t2, qm == c2), "constructor index")
	nd.Assert(mut.Match(qp, qm, qn) == nd.And(e2, qp == "zzmod/x/dup", qn == t2, qm == f2), "mutable-field index")
	nd.Assert(tt.Contains(qp, qn) == nd.And(e5, qp == "zzmod/y/dup", qn == t5), "testonly type index")
	nd.Assert(!imm.Contains("zzmod/deep", deepT) && !tt.Contains("zzmod/deep", deepT), "facts of INDIRECT dependencies do not enter the indices")
	nd.Assert(tf.Match(qp, qn, qn) == nd.And(e5, qp == "zzmod/y/dup", qn == fn5), "testonly func index")
	nd.Assert(po.HasAnyFunctionAttachments(qp, qn) == nd.And(e5, qp == "zzmod/y/dup", qn == fn5), "packageonly index: item")
	nd.Assert(po.HasPkgFunctionAttachment(qp, qn, "w") == nd.And(e5, qp == "zzmod/y/dup", qn == fn5), "packageonly index: allow-list entry")
	nd.Assert(po.HasPkgFunctionAttachment(qp, qn, "u") == nd.And(e5, qp == "zzmod/y/dup", qn == fn5), "packageonly index: an entry that is the importer's own NAME stays what was written")
	// the facts are the driver's objects, handed to every other importer analysed in the same process: they are input only
	ap := fact5.PackageOnlyAnnotations[0].AllowedPackages
	nd.Assert(len(ap) == 3 && ap[0] == "zzmod/y/dup" && ap[1] == "w" && ap[2] == "u", "building the indices does not modify an imported package's fact (allow-list)")
	cn := fact2.ConstructorAnnotations[0].ConstructorNames
	nd.Assert(len(cn) == 1 && cn[0] == c2 && fact2.ConstructorAnnotations[0].OnType == t2 && fact2.ImmutableAnnotations[0].OnType == t2 && fact2.MutableAnnotations[0].FieldName == f2, "building the indices does not modify an imported package's fact (constructor list, type and field names)")
	nd.Assert(len(fact5.TestonlyAnnotations) == 2 && fact5.TestonlyAnnotations[0].ObjectName == t5 && fact5.TestonlyAnnotations[1].ObjectName == fn5, "building the indices does not modify an imported package's fact (@testonly items)")
}
