package zzh

import (
	"golang.org/x/tools/go/analysis"

	"github.com/a14e/gogreement/src/annotations"
	"github.com/a14e/gogreement/src/indexing"
	"github.com/a14e/gogreement/src/zzverif/nd"
)

const c06SrcU = `package u

import (
	_ "zzmod/e1"
	_ "zzmod/e2"
	_ "zzmod/e3"
	_ "zzmod/e4"
	_ "zzmod/e5"
)
`

// ZZC06Merge: the importer-side indices are exactly the union of the local annotations and the facts of the DIRECT
// imports, each item filed under (declaring package path, name). Five imports; any subset of them exports a fact; the
// facts of e2 and e5 carry annotations with arbitrary (opaque) names, the others are empty.
func ZZC06Merge() {
	files := []nd.File{}
	for _, p := range []string{"e1", "e2", "e3", "e4", "e5"} {
		files = append(files, nd.File{Pkg: "zzmod/" + p, Name: "e.go", Src: "package " + p + "\n"})
	}
	files = append(files, nd.File{Pkg: "zzmod/u", Name: "u.go", Src: c06SrcU})
	prog := nd.LoadProgram(files, nil)

	has := map[string]bool{}
	for _, p := range []string{"e1", "e2", "e3", "e4", "e5"} {
		has["zzmod/"+p] = nd.Bool("fact_" + p)
	}
	t2, c2, f2 := nd.Atom("e2_type"), nd.Atom("e2_ctor"), nd.Atom("e2_field")
	t5, fn5 := nd.Atom("e5_type"), nd.Atom("e5_func")
	fact2 := annotations.PackageAnnotations{
		ImmutableAnnotations:   []annotations.ImmutableAnnotation{{OnType: t2}},
		ConstructorAnnotations: []annotations.ConstructorAnnotation{{OnType: t2, ConstructorNames: []string{c2}}},
		MutableAnnotations:     []annotations.MutableAnnotation{{OnType: t2, FieldName: f2}},
	}
	fact5 := annotations.PackageAnnotations{
		TestonlyAnnotations:    []annotations.TestOnlyAnnotation{{Kind: annotations.TestOnlyOnType, ObjectName: t5}, {Kind: annotations.TestOnlyOnFunc, ObjectName: fn5}},
		PackageOnlyAnnotations: []annotations.PackageOnlyAnnotation{{Kind: annotations.TestOnlyOnFunc, ObjectName: fn5, AllowedPackages: []string{"zzmod/e5", "w"}}},
	}
	facts := Facts{"zzmod/e1": {}, "zzmod/e2": &fact2, "zzmod/e3": {}, "zzmod/e4": {}, "zzmod/e5": &fact5}
	visible := Facts{}
	for k, v := range facts {
		if has[k] {
			visible[k] = v
		}
	}
	var raw []analysis.Diagnostic
	pass := NewPass(prog, "zzmod/u", visible, &raw)
	lt := nd.Atom("local_type")
	local := annotations.PackageAnnotations{ImmutableAnnotations: []annotations.ImmutableAnnotation{{OnType: lt}}}

	imm := indexing.BuildImmutableTypesIndex[*annotations.ImmutableCheckerFact](pass, &local)
	ctor := indexing.BuildConstructorIndex[*annotations.ConstructorCheckerFact](pass, &local)
	mut := indexing.BuildMutableFieldsIndex[*annotations.ImmutableCheckerFact](pass, &local)
	tt := indexing.BuildTestOnlyTypesIndex[*annotations.TestOnlyCheckerFact](pass, &local)
	tf := indexing.BuildTestOnlyFuncsIndex[*annotations.TestOnlyCheckerFact](pass, &local)
	po := indexing.BuildPackageOnlyIndex[*annotations.PackageOnlyCheckerFact](pass, &local)

	// arbitrary query
	qp := nd.Enum("q_pkg", "zzmod/u", "zzmod/e1", "zzmod/e2", "zzmod/e5", "zzmod/other")
	qn := nd.Atom("q_name")
	qm := nd.Atom("q_member")
	e2 := has["zzmod/e2"]
	e5 := has["zzmod/e5"]
	nd.Assert(imm.Contains(qp, qn) == nd.Or(nd.And(qp == "zzmod/u", qn == lt), nd.And(e2, qp == "zzmod/e2", qn == t2)), "immutable index = local + direct imports' facts, by declaring path")
	nd.Assert(ctor.Match(qp, qm, qn) == nd.And(e2, qp == "zzmod/e2", qn == t2, qm == c2), "constructor index")
	nd.Assert(mut.Match(qp, qm, qn) == nd.And(e2, qp == "zzmod/e2", qn == t2, qm == f2), "mutable-field index")
	nd.Assert(tt.Contains(qp, qn) == nd.And(e5, qp == "zzmod/e5", qn == t5), "testonly type index")
	nd.Assert(tf.Match(qp, qn, qn) == nd.And(e5, qp == "zzmod/e5", qn == fn5), "testonly func index")
	nd.Assert(po.HasAnyFunctionAttachments(qp, qn) == nd.And(e5, qp == "zzmod/e5", qn == fn5), "packageonly index: item")
	nd.Assert(po.HasPkgFunctionAttachment(qp, qn, "w") == nd.And(e5, qp == "zzmod/e5", qn == fn5), "packageonly index: allow-list entry")
}
