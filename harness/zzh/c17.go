package zzh

import (
	"strings"

	"github.com/a14e/gogreement/src/config"
	"github.com/a14e/gogreement/src/zzverif/nd"
)

// frozen documentation table (book/): category -> page
func c17DocURL(category string) string {
	base := "https://a14e.github.io/gogreement/"
	switch category {
	case "IMM":
		return base + "02_02_immutable.html"
	case "CTOR":
		return base + "02_03_constructor.html"
	case "TONL":
		return base + "02_04_testonly.html"
	case "PKGO":
		return base + "02_05_packageonly.html"
	case "IMPL":
		return base + "02_01_implements.html"
	}
	return "?"
}

var c17CheckerCategory = map[string]string{"imm": "IMM", "ctor": "CTOR", "tonl": "TONL", "pkgo": "PKGO"}

// ZZC17WellFormed: every diagnostic of the all-codes program, per analyzer: one documented code in the form [CODE],
// of the analyzer's category, located in the analysed package's file, linking to the category's page.
func ZZC17WellFormed() {
	files := []nd.File{{Pkg: "zzmod/d", Name: "d.go", Src: allSrcD}, {Pkg: "zzmod/u", Name: "u.go", Src: allSrcU}}
	prog := nd.LoadProgram(files, nil)
	cfg := config.Default()
	rd := Analyze(prog, cfg, "zzmod/d", Facts{}, "imm")
	total := 0
	for _, checker := range []string{"imm", "ctor", "tonl", "pkgo"} {
		ru := AnalyzeSrc(prog, cfg, "zzmod/u", Facts{"zzmod/d": &rd.Ann}, checker)
		for _, d := range ru.Diags {
			total++
			nd.Assert(d.Code != "?", "message starts with error: [CODE] for a documented code")
			nd.Assert(allCategory(d.Code) == c17CheckerCategory[checker], "code belongs to the reporting analyzer's category")
			for _, other := range allCodes {
				if other != d.Code {
					nd.Assert(!strings.Contains(d.Msg, "["+other+"]"), "no second documented code in the message")
				}
			}
			nd.Assert(d.File == "/zz/zzmod/u/u.go", "located in a file of the analysed package")
			url := c17DocURL(allCategory(d.Code))
			nd.Assert(strings.HasSuffix(d.Msg, "   = help: "+url+"\n"), "links to the category's documentation page")
			// the excerpt shows the diagnostic's own line with its number
			want := ""
			for _, cl := range allCodeLines {
				if cl.code == d.Code && nd.LineOf(allSrcU, cl.needle) == d.Line {
					want = cl.needle
				}
			}
			nd.Assert(want != "" && strings.Contains(d.Msg, " | ") && strings.Contains(d.Msg, "// "+want+"\n"), "excerpt shows the reported source line")
			nd.Assert(d.Line == nd.LineOf(allSrcU, want), "diagnostic is on the line of the offending statement")
		}
	}
	nd.Assert(total == len(allCodeLines), "every IMM/CTOR/TONL/PKGO code is produced exactly once by the program")
}

// the all-codes user file with a trailing comment hole on every diagnostic line
func c17InlineSrc() string {
	s := allSrcU
	for i, cl := range allCodeLines {
		if cl.needle == "L-LAST" {
			s = replaceAll(s, "// "+cl.needle, "//«g"+string(rune('a'+i))+"» "+cl.needle)
			continue
		}
		s = replaceAll(s, "// "+cl.needle+"\n", "//«g"+string(rune('a'+i))+"» "+cl.needle+"\n")
	}
	return s
}

// ZZC17Inline: appending "// @ignore CODE" with the displayed code to a diagnostic's line removes it and nothing else.
func ZZC17Inline() { c17Inline(2) }

// ZZC17Inline3: any three lines at a time (thorough tier).
func ZZC17Inline3() { c17Inline(3) }

func c17Inline(maxActive int) {
	src := c17InlineSrc()
	holes := []nd.Hole{}
	on := make([]bool, len(allCodeLines))
	active := 0
	for i, cl := range allCodeLines {
		name := "g" + string(rune('a'+i))
		v := nd.EnumPad(name, " @ignore "+cl.code, " plain")
		holes = append(holes, nd.Hole{Name: name, Value: v})
		on[i] = nd.HasPrefix(v, " @ignore ")
		active += nd.IteInt(on[i], 1, 0)
	}
	nd.Assume(active <= maxActive) // stated bound on simultaneously marked lines
	files := []nd.File{{Pkg: "zzmod/d", Name: "d.go", Src: allSrcD}, {Pkg: "zzmod/u", Name: "u.go", Src: src}}
	prog := nd.LoadProgram(files, holes)
	cfg := config.Default()
	rd := Analyze(prog, cfg, "zzmod/d", Facts{}, "imm")
	ru := Analyze(prog, cfg, "zzmod/u", Facts{"zzmod/d": &rd.Ann}, "imm", "ctor", "tonl", "pkgo")
	var exp []Expect
	for i, cl := range allCodeLines {
		exp = append(exp, Expect{"/zz/zzmod/u/u.go", nd.LineOf(src, cl.needle), cl.code, nd.Not(on[i])})
	}
	CheckExact(ru.Diags, exp, "C17 inline @ignore with the displayed code")
}
