package zzh

import (
	"golang.org/x/tools/go/analysis"

	"github.com/a14e/gogreement/src/annotations"
	"github.com/a14e/gogreement/src/config"
	"github.com/a14e/gogreement/src/ignore"
	"github.com/a14e/gogreement/src/zzverif/nd"
)

// attachment sites of a comment in a file
const c15bSrc = `package d

//«s1»
type A struct {
	//«s5»
	named int
	//«s7»
	E
}

//«s2»
type (
	B struct {
		//«s6»
		plain int
	}
)

type E struct{}

/* @immutable */
type Block struct{}

//«s3»
func F() {
	//«s11»
	x := 1
	_ = x
	//«s12»
	type Local struct{}
}

//«s4»
func (a *A) M() {}

//«s8»
var V int

//«s9»
const C = 1

type Trail struct{} //«s10»
`

var c15bAlts = []string{" @immutable", " @constructor New, Make", " @testonly", " @packageonly w", " @mutable", " @implements &pk.Iface", " plain", " see @immutable", " @Immutable", " @immutablex", " @test only", " @ mutable"}

type c15bSite struct {
	name string
	kind string // "type" | "func" | "method" | "field" | "inert"
	obj  string // annotated object name
}

var c15bSites = []c15bSite{
	{"s1", "type", "A"}, {"s2", "type", "B"}, {"s3", "func", "F"}, {"s4", "method", "M"},
	{"s5", "field", "named"}, {"s6", "inert", ""}, {"s7", "inert", ""}, {"s8", "inert", ""}, {"s9", "inert", ""},
	{"s10", "inert", ""}, {"s11", "inert", ""}, {"s12", "inert", ""},
}

// ZZC15bAttachment: a comment (any annotation keyword or near-miss) at any of 12 sites of a file, any two sites at a
// time: annotations are produced exactly at the effective sites — doc of a top-level type (or of its type(...) group),
// doc of a top-level func/method for @testonly/@packageonly, doc of a named field of an @immutable struct for @mutable.
func ZZC15bAttachment() {
	holes := []nd.Hole{}
	vals := map[string]string{}
	nonPlain := 0
	for _, s := range c15bSites {
		v := nd.EnumPad(s.name, c15bAlts...)
		vals[s.name] = v
		holes = append(holes, nd.Hole{Name: s.name, Value: v})
		nonPlain += nd.IteInt(nd.HasPrefix(v, " plain"), 0, 1)
	}
	nd.Assume(nonPlain <= 2) // stated bound: at most two non-plain comments at a time (all pairs of sites)
	prog := nd.LoadProgram([]nd.File{{Pkg: "zzmod/d", Name: "d.go", Src: c15bSrc}}, holes)
	var raw []analysis.Diagnostic
	pass := NewPass(prog, "zzmod/d", Facts{}, &raw)
	cfg := config.Default()
	ann := annotations.ReadAllAnnotations(cfg, pass)
	ign := ignore.ReadIgnoreAnnotations(cfg, pass)
	nd.Assert(ign.Len() == 0, "no @ignore marker without an @ignore comment")

	width := 0
	for _, a := range c15bAlts {
		if len(a) > width {
			width = len(a)
		}
	}
	is := func(site, alt string) bool {
		for len(alt) < width {
			alt += " "
		}
		return vals[site] == alt
	}
	count := func(c bool) int { return nd.IteInt(c, 1, 0) }
	// expected numbers of annotations of each kind
	wantImm := count(is("s1", " @immutable")) + count(is("s2", " @immutable"))
	wantCtor := count(is("s1", " @constructor New, Make")) + count(is("s2", " @constructor New, Make"))
	wantImpl := count(is("s1", " @implements &pk.Iface")) + count(is("s2", " @implements &pk.Iface"))
	wantTest := count(is("s1", " @testonly")) + count(is("s2", " @testonly")) + count(is("s3", " @testonly")) + count(is("s4", " @testonly"))
	wantPkg := count(is("s1", " @packageonly w")) + count(is("s2", " @packageonly w")) + count(is("s3", " @packageonly w")) + count(is("s4", " @packageonly w"))
	// @mutable only on the named field of a struct whose own doc carries @immutable
	wantMut := count(nd.And(is("s5", " @mutable"), is("s1", " @immutable"))) + count(nd.And(is("s6", " @mutable"), is("s2", " @immutable")))
	nd.Assert(len(ann.ImmutableAnnotations) == wantImm, "@immutable only as doc of a top-level type declaration")
	nd.Assert(len(ann.ConstructorAnnotations) == wantCtor, "@constructor only as doc of a top-level type declaration")
	nd.Assert(len(ann.ImplementsAnnotations) == wantImpl, "@implements only as doc of a top-level type declaration")
	nd.Assert(len(ann.TestonlyAnnotations) == wantTest, "@testonly only as doc of a top-level type/func/method")
	nd.Assert(len(ann.PackageOnlyAnnotations) == wantPkg, "@packageonly only as doc of a top-level type/func/method")
	nd.Assert(len(ann.MutableAnnotations) == wantMut, "@mutable only as doc of a named field of an @immutable struct")
	for _, a := range ann.ImmutableAnnotations {
		nd.Assert(nd.Or(nd.And(a.OnType == "A", is("s1", " @immutable")), nd.And(a.OnType == "B", is("s2", " @immutable"))), "@immutable attached to the documented type")
	}
	for _, a := range ann.ConstructorAnnotations {
		nd.Assert(nd.And(len(a.ConstructorNames) == 2, nd.Or(a.OnType == "A", a.OnType == "B")), "@constructor value")
	}
	for _, a := range ann.TestonlyAnnotations {
		ok := nd.Or(
			nd.And(a.Kind == annotations.TestOnlyOnType, a.ObjectName == "A", is("s1", " @testonly")),
			nd.And(a.Kind == annotations.TestOnlyOnType, a.ObjectName == "B", is("s2", " @testonly")),
			nd.And(a.Kind == annotations.TestOnlyOnFunc, a.ObjectName == "F", is("s3", " @testonly")),
			nd.And(a.Kind == annotations.TestOnlyOnMethod, a.ObjectName == "M", a.ReceiverType == "A", is("s4", " @testonly")))
		nd.Assert(ok, "@testonly attached to the documented item with the right kind")
	}
	for _, a := range ann.MutableAnnotations {
		nd.Assert(nd.Or(nd.And(a.OnType == "A", a.FieldName == "named"), nd.And(a.OnType == "B", a.FieldName == "plain")), "@mutable attached to the documented field")
	}
}
