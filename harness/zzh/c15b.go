package zzh

import (
	"golang.org/x/tools/go/analysis"

	"github.com/a14e/gogreement/src/annotations"
	"github.com/a14e/gogreement/src/config"
	"github.com/a14e/gogreement/src/ignore"
	"github.com/a14e/gogreement/src/zzverif/nd"
)

// attachment sites of a comment in a file
const c15bSrc = `package d

//«s1»
type A struct {
	//«s5»
	named int
	//«s7»
	E
}

//«s13»
//«s19»
type A2 struct {
	//«s14»
	named int
}

//«s2»
type (
	B struct {
		//«s6»
		plain int
	}
	//«s15»
	G struct {
		//«s16»
		cf int
	}
	H struct{ hf int }
)

type E struct{}

/* @immutable */
type Block struct{}

//«s3»
func F() {
	//«s11»
	x := 1
	_ = x
	//«s12»
	type Local struct{}
}

//«s4»
func (a *A) M() {}

//«s8»
var V int

//«s9»
const C = 1

type Trail struct{} //«s10»
`

var c15bAlts = []string{" @immutable", " @constructor New, Make", " @testonly", " @packageonly w", " @mutable", " @implements &pk.Iface", " plain", " see @immutable", " @Immutable", " @immutablex", " @test only", " @ mutable",
	// accepted annotations whose ignored trailing text mentions other keywords
	" @testonly not an @immutable one", " @immutable (was @constructor N)", " @packageonly w or @testonly", " @mutable unlike @immutable", " @constructor New, Make @implements X",
	// a tab instead of a blank between // and the keyword
	"\t@testonly", "\t@packageonly w",
	// a form feed (also matched by the regexes' \s) instead of a blank
	"\f@immutable"}

// the keyword a comment spelling is an annotation of ("" if it is none) — from the documented grammar
func c15bKeyword(alt string) string {
	for _, k := range []string{"immutable", "constructor", "testonly", "packageonly", "mutable", "implements"} {
		for _, p := range []string{" @" + k, "\t@" + k, "\f@" + k} {
			if len(alt) >= len(p) && alt[:len(p)] == p && (len(alt) == len(p) || alt[len(p)] == ' ') {
				return k
			}
		}
	}
	return ""
}

type c15bSite struct {
	name string
	kind string // "type" | "func" | "method" | "field" | "inert"
	obj  string // annotated object name
}

var c15bSites = []c15bSite{
	{"s1", "type", "A"}, {"s2", "type", "B"}, {"s3", "func", "F"}, {"s4", "method", "M"},
	{"s5", "field", "named"}, {"s6", "inert", ""}, {"s7", "inert", ""}, {"s8", "inert", ""}, {"s9", "inert", ""},
	{"s10", "inert", ""}, {"s11", "inert", ""}, {"s12", "inert", ""}, {"s13", "type", "A2"}, {"s14", "field", "named"},
	{"s15", "type", "G"}, {"s16", "field", "cf"}, {"s19", "type", "A2"},
}

// ZZC15bAttachment: a comment (any annotation keyword or near-miss) at any of 12 sites of a file, any two sites at a
// time: annotations are produced exactly at the effective sites — doc of a top-level type (or of its type(...) group),
// doc of a top-level func/method for @testonly/@packageonly, doc of a named field of an @immutable struct for @mutable.
func ZZC15bAttachment() { c15bAttachment(2, nil) }

// ZZC15bAttachment3: any three sites non-plain at a time (thorough tier).
func ZZC15bAttachment3() { c15bAttachment(3, nil) }

// ZZC15bMutablePairs: the docs of two structs and of their same-named fields, all four arbitrary at once
// (two @immutable structs each with a @mutable field of the same name, and every other combination).
func ZZC15bMutablePairs() { c15bAttachment(4, []string{"s1", "s5", "s13", "s14"}) }

func c15bAttachment(maxNonPlain int, only []string) {
	holes := []nd.Hole{}
	vals := map[string]string{}
	nonPlain := 0
	width0 := 0
	for _, a := range c15bAlts {
		if len(a) > width0 {
			width0 = len(a)
		}
	}
	for _, s := range c15bSites {
		symbolic := only == nil
		for _, o := range only {
			if o == s.name {
				symbolic = true
			}
		}
		if !symbolic {
			pl := " plain"
			for len(pl) < width0 {
				pl += " "
			}
			vals[s.name] = pl
			holes = append(holes, nd.Hole{Name: s.name, Value: pl})
			continue
		}
		v := nd.EnumPad(s.name, c15bAlts...)
		vals[s.name] = v
		holes = append(holes, nd.Hole{Name: s.name, Value: v})
		nonPlain += nd.IteInt(nd.HasPrefix(v, " plain"), 0, 1)
	}
	nd.Assume(nonPlain <= maxNonPlain) // stated bound on simultaneously non-plain comments
	prog := nd.LoadProgram([]nd.File{{Pkg: "zzmod/d", Name: "d.go", Src: c15bSrc}}, holes)
	var raw []analysis.Diagnostic
	pass := NewPass(prog, "zzmod/d", Facts{}, &raw)
	cfg := config.Default()
	ann := annotations.ReadAllAnnotations(cfg, pass)
	ign := ignore.ReadIgnoreAnnotations(cfg, pass)
	nd.Assert(ign.Len() == 0, "no @ignore marker without an @ignore comment")

	width := 0
	for _, a := range c15bAlts {
		if len(a) > width {
			width = len(a)
		}
	}
	// is(site, " @keyword ..."): the comment at the site is an annotation with that keyword (whatever follows it)
	is := func(site, altPrefix string) bool {
		want := c15bKeyword(altPrefix)
		r := false
		for _, alt := range c15bAlts {
			if c15bKeyword(alt) == want && want != "" {
				padded := alt
				for len(padded) < width {
					padded += " "
				}
				r = nd.Or(r, vals[site] == padded)
			}
		}
		return r
	}
	count := func(c bool) int { return nd.IteInt(c, 1, 0) }
	// the same annotation keyword on both doc lines of A2 is outside the claim (the property does not say whether a
	// repeated annotation yields one or two records; with @immutable twice its @mutable fields are recorded twice)
	for _, alt := range []string{" @immutable", " @constructor New, Make", " @testonly", " @packageonly w", " @implements &pk.Iface"} {
		nd.Assume(nd.Not(nd.And(is("s13", alt), is("s19", alt))))
	}
	// G is a member of the type(...) group documented by s2 AND has its own doc s15: its own doc must take effect;
	// whether the group's doc also reaches a member that has its own doc is not stated by the property (don't care),
	// so annotations on G are counted separately: required when s15 says so, forbidden when neither s15 nor s2 does.
	notC := func(names []string) int {
		n := 0
		for _, x := range names {
			if x != "G" {
				n++
			}
		}
		return n
	}
	onC := func(names []string) int { return len(names) - notC(names) }
	var immT, ctorT, implT, testT, pkgT, mutT []string
	for _, a := range ann.ImmutableAnnotations {
		immT = append(immT, a.OnType)
	}
	for _, a := range ann.ConstructorAnnotations {
		ctorT = append(ctorT, a.OnType)
	}
	for _, a := range ann.ImplementsAnnotations {
		implT = append(implT, a.OnType)
	}
	for _, a := range ann.TestonlyAnnotations {
		testT = append(testT, a.ObjectName)
	}
	for _, a := range ann.PackageOnlyAnnotations {
		pkgT = append(pkgT, a.ObjectName)
	}
	for _, a := range ann.MutableAnnotations {
		mutT = append(mutT, a.OnType)
	}
	// A2 has a two-line doc (s13, s19): each line is recognised on its own; the group's doc s2 reaches B and H (one record
	// each), and H — the member after G — gets nothing from G's own doc s15
	two := func(alt string) int { return count(is("s13", alt)) + count(is("s19", alt)) }
	wantImm := count(is("s1", " @immutable")) + 2*count(is("s2", " @immutable")) + two(" @immutable")
	wantCtor := count(is("s1", " @constructor New, Make")) + 2*count(is("s2", " @constructor New, Make")) + two(" @constructor New, Make")
	wantImpl := count(is("s1", " @implements &pk.Iface")) + 2*count(is("s2", " @implements &pk.Iface")) + two(" @implements &pk.Iface")
	wantTest := count(is("s1", " @testonly")) + 2*count(is("s2", " @testonly")) + count(is("s3", " @testonly")) + count(is("s4", " @testonly")) + two(" @testonly")
	wantPkg := count(is("s1", " @packageonly w")) + 2*count(is("s2", " @packageonly w")) + count(is("s3", " @packageonly w")) + count(is("s4", " @packageonly w")) + two(" @packageonly w")
	a2Imm := nd.Or(is("s13", " @immutable"), is("s19", " @immutable"))
	// @mutable only on the named field of a struct whose own doc carries @immutable
	wantMut := count(nd.And(is("s5", " @mutable"), is("s1", " @immutable"))) + count(nd.And(is("s6", " @mutable"), is("s2", " @immutable"))) + count(nd.And(is("s14", " @mutable"), a2Imm))
	nd.Assert(notC(immT) == wantImm, "@immutable only as doc of a top-level type declaration")
	nd.Assert(notC(ctorT) == wantCtor, "@constructor only as doc of a top-level type declaration")
	nd.Assert(notC(implT) == wantImpl, "@implements only as doc of a top-level type declaration")
	nd.Assert(notC(testT) == wantTest, "@testonly only as doc of a top-level type/func/method")
	nd.Assert(notC(pkgT) == wantPkg, "@packageonly only as doc of a top-level type/func/method")
	nd.Assert(notC(mutT) == wantMut, "@mutable only as doc of a named field of an @immutable struct")
	for _, k := range []struct {
		alt string
		got int
	}{{" @immutable", onC(immT)}, {" @constructor New, Make", onC(ctorT)}, {" @implements &pk.Iface", onC(implT)}, {" @testonly", onC(testT)}, {" @packageonly w", onC(pkgT)}} {
		// the group's doc applies to every member, a member's own doc adds to it (C12: an ordinary comment above a member must
		// not switch the group's annotations off); the same keyword in both docs may yield one or two records
		nd.Assert((k.got >= 1) == nd.Or(is("s15", k.alt), is("s2", k.alt)), "a member of a type(...) group carries the annotations of its own doc and of the group's doc")
	}
	gImm := nd.Or(is("s15", " @immutable"), is("s2", " @immutable"))
	nd.Assert((onC(mutT) >= 1) == nd.And(is("s16", " @mutable"), gImm), "@mutable on the field of a group member that is @immutable by its own or the group's doc")
	for _, a := range ann.ImmutableAnnotations {
		nd.Assert(nd.Or(nd.And(a.OnType == "A", is("s1", " @immutable")), nd.And(a.OnType == "B", is("s2", " @immutable")), nd.And(a.OnType == "H", is("s2", " @immutable")), nd.And(a.OnType == "A2", a2Imm), a.OnType == "G"), "@immutable attached to the documented type")
	}
	for _, a := range ann.ConstructorAnnotations {
		nd.Assert(nd.And(len(a.ConstructorNames) == 2, nd.Or(a.OnType == "A", a.OnType == "B", a.OnType == "H", a.OnType == "A2", a.OnType == "G")), "@constructor value")
	}
	for _, a := range ann.TestonlyAnnotations {
		ok := nd.Or(
			nd.And(a.Kind == annotations.TestOnlyOnType, a.ObjectName == "A", is("s1", " @testonly")),
			nd.And(a.Kind == annotations.TestOnlyOnType, a.ObjectName == "B", is("s2", " @testonly")),
			nd.And(a.Kind == annotations.TestOnlyOnType, a.ObjectName == "H", is("s2", " @testonly")),
			nd.And(a.Kind == annotations.TestOnlyOnType, a.ObjectName == "G"),
			nd.And(a.Kind == annotations.TestOnlyOnType, a.ObjectName == "A2", nd.Or(is("s13", " @testonly"), is("s19", " @testonly"))),
			nd.And(a.Kind == annotations.TestOnlyOnFunc, a.ObjectName == "F", is("s3", " @testonly")),
			nd.And(a.Kind == annotations.TestOnlyOnMethod, a.ObjectName == "M", a.ReceiverType == "A", is("s4", " @testonly")))
		nd.Assert(ok, "@testonly attached to the documented item with the right kind")
	}
	for _, a := range ann.MutableAnnotations {
		nd.Assert(nd.Or(nd.And(a.OnType == "A", a.FieldName == "named"), nd.And(a.OnType == "B", a.FieldName == "plain"), nd.And(a.OnType == "A2", a.FieldName == "named"), nd.And(a.OnType == "G", a.FieldName == "cf")), "@mutable attached to the documented field")
	}
}

const c15bIgnSrc = `package d

//«i1»
//«i2»
//«i3»
var V int

func F() {
	//«i4»
	//«i5»
	x := 1
	_ = x //«i6»
}
`

var c15bIgnAlts = []string{" @ignore CTOR01", " @ignore imm01, IMM02 because", " @ignore", " @ignored X", " plain"}

// ZZC15bIgnoreLines: every line of a comment group is recognised on its own — the number of @ignore markers equals the
// number of well-formed @ignore lines, whatever their neighbours in the same group are (six lines in three groups, all
// symbolic at once).
func ZZC15bIgnoreLines()  { c15bIgnoreLines(3) }
func ZZC15bIgnoreLines6() { c15bIgnoreLines(6) }

func c15bIgnoreLines(maxNonPlain int) {
	names := []string{"i1", "i2", "i3", "i4", "i5", "i6"}
	holes := []nd.Hole{}
	want, nonPlain := 0, 0
	for _, n := range names {
		v := nd.EnumPad(n, c15bIgnAlts...)
		holes = append(holes, nd.Hole{Name: n, Value: v})
		want += nd.IteInt(nd.Or(nd.HasPrefix(v, " @ignore CTOR01"), nd.HasPrefix(v, " @ignore imm01, IMM02 because")), 1, 0)
		nonPlain += nd.IteInt(nd.HasPrefix(v, " plain"), 0, 1)
	}
	nd.Assume(nonPlain <= maxNonPlain)
	prog := nd.LoadProgram([]nd.File{{Pkg: "zzmod/d", Name: "d.go", Src: c15bIgnSrc}}, holes)
	var raw []analysis.Diagnostic
	pass := NewPass(prog, "zzmod/d", Facts{}, &raw)
	ign := ignore.ReadIgnoreAnnotations(config.Default(), pass)
	nd.Assert(ign.Len() == want, "one @ignore marker per well-formed @ignore line, independent of the other lines of its comment group")
}

const c15bParenSrc = `package d

//«p1»
type P (struct {
	//«p2»
	pf int
})
`

// ZZC15bParenStruct: the struct type of the declaration is written in parentheses (legal, kept by gofmt): the doc of its
// named field is still the place of @mutable.
func ZZC15bParenStruct() {
	p1 := nd.EnumPad("p1", c15bAlts...)
	p2 := nd.EnumPad("p2", c15bAlts...)
	prog := nd.LoadProgram([]nd.File{{Pkg: "zzmod/d", Name: "d.go", Src: c15bParenSrc}}, []nd.Hole{{Name: "p1", Value: p1}, {Name: "p2", Value: p2}})
	var raw []analysis.Diagnostic
	pass := NewPass(prog, "zzmod/d", Facts{}, &raw)
	ann := annotations.ReadAllAnnotations(config.Default(), pass)
	width := 0
	for _, a := range c15bAlts {
		if len(a) > width {
			width = len(a)
		}
	}
	is := func(v, kw string) bool {
		r := false
		for _, alt := range c15bAlts {
			if c15bKeyword(alt) == kw {
				padded := alt
				for len(padded) < width {
					padded += " "
				}
				r = nd.Or(r, v == padded)
			}
		}
		return r
	}
	wantMut := nd.IteInt(nd.And(is(p1, "immutable"), is(p2, "mutable")), 1, 0)
	nd.Assert(len(ann.ImmutableAnnotations) == nd.IteInt(is(p1, "immutable"), 1, 0), "@immutable on a type whose struct type is parenthesised")
	nd.Assert(len(ann.MutableAnnotations) == wantMut, "@mutable on the named field of a parenthesised struct type of an @immutable type")
	for _, m := range ann.MutableAnnotations {
		nd.Assert(nd.And(m.OnType == "P", m.FieldName == "pf"), "@mutable attached to the documented field")
	}
}
