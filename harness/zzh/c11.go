package zzh

import (
	"strings"

	"github.com/a14e/gogreement/src/config"
	"github.com/a14e/gogreement/src/zzverif/nd"
)

func pad(s string, n int) string {
	for len(s) < n {
		s += " "
	}
	return s
}

const c11SrcD = `package d

//«annT»
//«annT2»
type T struct{}

//«annF»
func F() {}
`

const c11SrcU = `package u

import "zzmod/d"

func Use(t *d.T) { // U-PARAM
	d.F() // U-CALL
}
`

// ZZC11Messages: the TEXT of the diagnostics under every iteration order of the maps involved. Allow-lists with repeated
// entries, over two annotation lines: the message lists the allowed packages in the order they were written (declaring
// package first), whatever the order in which Go happens to iterate its maps. (Run with map-order exploration on.)
func ZZC11Messages() {
	annT := nd.EnumPad("annT", " @packageonly alpha, beta, gamma, alpha", " @packageonly beta, alpha", " @packageonly")
	annT2 := nd.EnumPad("annT2", " @packageonly gamma, beta", " plain")
	annF := nd.EnumPad("annF", " @packageonly x1, x2, x1, x3", " @packageonly x3, x2, x1")
	holes := []nd.Hole{{"annT", annT}, {"annT2", annT2}, {"annF", annF}}
	files := []nd.File{{Pkg: "zzmod/d", Name: "d.go", Src: c11SrcD}, {Pkg: "zzmod/u", Name: "u.go", Src: c11SrcU}}
	prog := nd.LoadProgram(files, holes)
	cfg := config.Default()
	rd := Analyze(prog, cfg, "zzmod/d", Facts{}, "pkgo")
	ru := Analyze(prog, cfg, "zzmod/u", Facts{"zzmod/d": &rd.Ann}, "pkgo")
	// expected list text = entries in written order, each annotation line prefixed by the declaring package
	listOf := func(spelling string) string {
		spelling = strings.TrimSpace(spelling)
		if !strings.HasPrefix(spelling, "@packageonly") {
			return ""
		}
		out := "zzmod/d"
		for _, p := range strings.Split(strings.TrimSpace(strings.TrimPrefix(spelling, "@packageonly")), ",") {
			if p = strings.TrimSpace(p); p != "" {
				out += " " + p
			}
		}
		return out
	}
	wantT := ""
	for _, a := range []string{" @packageonly alpha, beta, gamma, alpha", " @packageonly beta, alpha", " @packageonly"} {
		for _, b := range []string{" @packageonly gamma, beta", " plain"} {
			l := listOf(a)
			if lb := listOf(b); lb != "" {
				l += " " + lb
			}
			wantT = nd.IteStr(nd.And(annT == pad(a, 39), annT2 == pad(b, 25)), "["+l+"]", wantT)
		}
	}
	wantF := nd.IteStr(nd.HasPrefix(annF, " @packageonly x1"), "[zzmod/d x1 x2 x1 x3]", "[zzmod/d x3 x2 x1]")
	_ = pad
	nT, nF := 0, 0
	for _, d := range ru.Diags {
		if d.Code == "PKGO01" {
			nT++
			nd.Assert(strings.Contains(d.Msg, "Allowed packages: "+wantT+"\n"), "PKGO01 text lists the allowed packages in written order under every map iteration order")
		}
		if d.Code == "PKGO02" {
			nF++
			nd.Assert(strings.Contains(d.Msg, "Allowed packages: "+wantF+"\n"), "PKGO02 text lists the allowed packages in written order under every map iteration order")
		}
	}
	nd.Assert(nT == 1 && nF == 1, "one PKGO01 and one PKGO02")
}

const c11SrcV1 = `package api

type Svc interface {
	A()
}
`
const c11SrcV2 = `package api

type Svc interface {
	A()
	B()
}
`
const c11SrcC1 = `package client1

import "zzmod/v1/api"

// @implements api.Svc
type Impl struct{}

func (Impl) A() {}

// @ignore IMPL03
var _ api.Svc = Impl{}
`
const c11SrcC2 = `package client2

import "zzmod/v2/api"

// @ignore CTOR01
// @implements api.Svc
type Impl struct{}

func (Impl) A() {}

var _ = api.Svc(nil)
`

// ZZC11Commute: two package actions whose inputs look alike (same-named packages and interfaces at different import
// paths) are run in either order within one process; each package's diagnostics are the same as when it is analysed
// alone — whatever process-wide state an analyzer may keep.
func ZZC11Commute() {
	files := []nd.File{{Pkg: "zzmod/v1/api", Name: "a.go", Src: c11SrcV1}, {Pkg: "zzmod/v2/api", Name: "a.go", Src: c11SrcV2},
		{Pkg: "zzmod/client1", Name: "c.go", Src: c11SrcC1}, {Pkg: "zzmod/client2", Name: "c.go", Src: c11SrcC2}}
	prog := nd.LoadProgram(files, nil)
	// a project-wide exclusion that matters to neither package, and in each package one marker that names a code the other
	// package's marker does not: whatever the packages' ignore sets share, a marker never suppresses a code it did not name
	cfg := config.New(false, []string{"testdata"}, []string{"TONL"})
	var r1, r2 Result
	if nd.Bool("client2_first") {
		r2 = Analyze(prog, cfg, "zzmod/client2", Facts{}, "impl", "imm", "ctor", "tonl", "pkgo")
		r1 = Analyze(prog, cfg, "zzmod/client1", Facts{}, "impl", "imm", "ctor", "tonl", "pkgo")
	} else {
		r1 = Analyze(prog, cfg, "zzmod/client1", Facts{}, "impl", "imm", "ctor", "tonl", "pkgo")
		r2 = Analyze(prog, cfg, "zzmod/client2", Facts{}, "impl", "imm", "ctor", "tonl", "pkgo")
	}
	CheckExact(r1.Diags, []Expect{}, "client1 implements v1/api.Svc: nothing to report, in either order")
	CheckExact(r2.Diags, []Expect{{"/zz/zzmod/client2/c.go", nd.LineOf(c11SrcC2, "type Impl struct{}"), "IMPL03", true}}, "client2 misses B of v2/api.Svc: IMPL03, in either order")
}

const c11SrcOrderA = `package d

var early = func() *T {
	t := NewT()
	t.f = 1 // FO-A-INIT
	return t
}()

//«annT»
// @constructor NewT
type T struct {
	f int
}

func Other(t *T) {
	t.f = 5 // FO-A-OTHER
}
`

const c11SrcOrderB = `package d

var late = func() *T {
	t := NewT()
	t.f = 3 // FO-B-INIT
	return t
}()

func After(t *T) {
	t.f = 4 // FO-B-AFTER
}

func NewT() *T {
	t := &T{}
	t.f = 2
	return t
}
`

// ZZC11FileOrder: the files of a package reach the analyzers in either order (positions in the FileSet ascending or not):
// the verdicts are the same — in particular the constructor that ends one file does not extend over the package-level
// initialiser that begins the file visited next.
func ZZC11FileOrder() {
	annT := nd.EnumPad("annT", " @immutable", " plain")
	rev := nd.Bool("files_reversed")
	ReverseFiles = false
	if rev {
		ReverseFiles = true
	}
	prog := nd.LoadProgram([]nd.File{{Pkg: "zzmod/d", Name: "a.go", Src: c11SrcOrderA}, {Pkg: "zzmod/d", Name: "b.go", Src: c11SrcOrderB}}, []nd.Hole{{"annT", annT}})
	res := Analyze(prog, config.Default(), "zzmod/d", Facts{}, "imm", "ctor")
	ReverseFiles = false
	imm := nd.HasPrefix(annT, " @immutable")
	fa, fb := "/zz/zzmod/d/a.go", "/zz/zzmod/d/b.go"
	CheckExact(res.Diags, []Expect{
		{fa, nd.LineOf(c11SrcOrderA, "FO-A-INIT"), "IMM01", imm},
		{fa, nd.LineOf(c11SrcOrderA, "FO-A-OTHER"), "IMM01", imm},
		{fb, nd.LineOf(c11SrcOrderB, "FO-B-INIT"), "IMM01", imm},
		{fb, nd.LineOf(c11SrcOrderB, "FO-B-AFTER"), "IMM01", imm},
	}, "C11 order of Pass.Files")
}
