package zzh

import (
	"github.com/a14e/gogreement/src/config"
	"github.com/a14e/gogreement/src/zzverif/nd"
)

const c02SrcA = `package d

//«ctor»
type T struct {
	f int
}

type Q struct {
	f int
}

//«ctor2»
type T2 struct {
	g int
}

func NewT2() *T2 {
	_ = T{} // SITE-T-IN-NEWT2
	return &T2{} // SITE-T2-IN-NEWT2
}

var before = T{} // SITE-PKGVAR-BEFORE

func NewT() *T {
	var z T // SITE-CTOR-VAR
	_ = z
	p := new(T) // SITE-CTOR-NEW
	_ = p
	var other T2 // SITE-T2-INSIDE-NEWT
	_ = other
	return &T{f: 1} // SITE-CTOR-LIT
}

var after = &T{} // SITE-PKGVAR-AFTER

var zero T // SITE-PKGVAR-ZERO

var (
	pg0 = 1
	pg1 T // SITE-PKG-VARGROUP
)

func MakT() T {
	return T{} // SITE-MAK-LIT
}

func Other() {
	a := T{} // SITE-LIT
	b := &T{f: 2} // SITE-PTRLIT
	c := []T{{f: 3}} // SITE-ELIDED
	d := map[string]T{"k": {}} // SITE-MAPELIDED
	e := new(T) // SITE-NEW
	var f T // SITE-VAR
	var g, h T // SITE-VAR2
	var (
		vg0 int
		vg1 T // SITE-VARGROUP
		vg2 *T
	)
	_, _, _ = vg0, vg1, vg2
	var p *T // SITE-PTRVAR
	var _ T // SITE-BLANK
	var _, vb T // SITE-VAR-AFTER-BLANK
	_ = vb
	var i T = *e // SITE-VARINIT
	q := Q{} // SITE-UNANNOTATED
	var r Q // SITE-UNANNOTATED-VAR
	func() {
		_ = T{} // SITE-CLOSURE
	}()
	_, _, _, _, _, _, _, _, _, _, _, _ = a, b, c, d, e, f, g, h, p, i, q, r
}
`

// ZZC02Basic: every instantiation form, inside/outside the listed constructors, package level before/after.
func ZZC02Basic() {
	ctor := nd.EnumPad("ctor", " @constructor NewT", " @constructor NewT, MakT", " @constructor MakT ,", " plain")
	ctor2 := nd.EnumPad("ctor2", " @constructor NewT2", " @constructor NewT2, NewT", " plain")
	holes := []nd.Hole{{"ctor", ctor}, {"ctor2", ctor2}}
	files := []nd.File{{Pkg: "zzmod/d", Name: "d.go", Src: c02SrcA}}
	prog := nd.LoadProgram(files, holes)
	res := Analyze(prog, config.Default(), "zzmod/d", Facts{}, "ctor")

	ann := nd.HasPrefix(ctor, " @constructor")
	newListed := nd.Or(nd.HasPrefix(ctor, " @constructor NewT "), nd.HasPrefix(ctor, " @constructor NewT,"))
	makListed := nd.Or(nd.HasPrefix(ctor, " @constructor NewT, MakT"), nd.HasPrefix(ctor, " @constructor MakT"))
	src := c02SrcA
	file := "/zz/zzmod/d/d.go"
	nd.Known("C02/pkgvar-after-constructor", nd.And(ann, newListed))
	ann2 := nd.HasPrefix(ctor2, " @constructor")
	newTListedFor2 := nd.HasPrefix(ctor2, " @constructor NewT2, NewT")
	exp := []Expect{
		// the exemption is per (function, type): a constructor of one type is an ordinary function for another type
		{file, nd.LineOf(src, "SITE-T-IN-NEWT2"), "CTOR01", ann},
		{file, nd.LineOf(src, "SITE-T2-IN-NEWT2"), "CTOR01", false},
		{file, nd.LineOf(src, "SITE-T2-INSIDE-NEWT"), "CTOR03", nd.And(ann2, nd.Not(newTListedFor2))},
		{file, nd.LineOf(src, "SITE-PKGVAR-BEFORE"), "CTOR01", ann},
		{file, nd.LineOf(src, "SITE-CTOR-VAR"), "CTOR03", nd.And(ann, nd.Not(newListed))},
		{file, nd.LineOf(src, "SITE-CTOR-NEW"), "CTOR02", nd.And(ann, nd.Not(newListed))},
		{file, nd.LineOf(src, "SITE-CTOR-LIT"), "CTOR01", nd.And(ann, nd.Not(newListed))},
		{file, nd.LineOf(src, "SITE-PKGVAR-AFTER"), "CTOR01", ann},
		{file, nd.LineOf(src, "SITE-PKGVAR-ZERO"), "CTOR03", ann},
		{file, nd.LineOf(src, "SITE-MAK-LIT"), "CTOR01", nd.And(ann, nd.Not(makListed))},
		{file, nd.LineOf(src, "SITE-LIT"), "CTOR01", ann},
		{file, nd.LineOf(src, "SITE-PTRLIT"), "CTOR01", ann},
		{file, nd.LineOf(src, "SITE-ELIDED"), "CTOR01", ann},
		{file, nd.LineOf(src, "SITE-MAPELIDED"), "CTOR01", ann},
		{file, nd.LineOf(src, "SITE-NEW"), "CTOR02", ann},
		{file, nd.LineOf(src, "SITE-VAR"), "CTOR03", ann},
		{file, nd.LineOf(src, "SITE-VAR2"), "CTOR03", ann},
		{file, nd.LineOf(src, "SITE-VAR-AFTER-BLANK"), "CTOR03", ann},
		// inside a var ( ... ) group the diagnostic sits on the variable's own line
		{file, nd.LineOf(src, "SITE-VARGROUP"), "CTOR03", ann},
		{file, nd.LineOf(src, "SITE-PKG-VARGROUP"), "CTOR03", ann},
		{file, nd.LineOf(src, "SITE-CLOSURE"), "CTOR01", ann},
	}
	CheckExact(res.Diags, exp, "C02 instantiation forms")
}

const c02SrcF1 = `package d

//«ctor»
type T struct {
	f    int
	next *T
}

type Account = T

type Ts []T

type PTs map[string]*T

type Outer struct {
	In  T
	Ptr *T
}

func NewT() *T {
	f := func() *T {
		if true {
			return &T{} // F-CTOR-CLOSURE
		}
		return new(T) // F-CTOR-CLOSURE-NEW
	}
	return f()
}
`

const c02SrcF2 = `package d

func MakT() Account {
	var v Account // F-MAK-VAR
	_ = new(Account) // F-MAK-NEW
	_ = Ts{{f: 1}} // F-MAK-TS
	return v
}

func init() {
	_ = Account{} // F-INIT-ALIAS
}

func Forms(n int) {
	a := Account{f: 1} // F-ALIAS-LIT
	b := new(Account) // F-ALIAS-NEW
	var c Account // F-ALIAS-VAR
	d := Ts{{f: 1}} // F-NAMED-SLICE
	e := PTs{"k": {f: 2}} // F-NAMED-PTRMAP
	f := []*Account{{f: 3}} // F-ELIDED-PTR
	g := map[string]*Account{"k": {}} // F-ELIDED-PTRMAP
	h := [2]Account{{}} // F-ARRAY
	i := [][]Account{{{f: 4}}} // F-NESTED
	j := Outer{In: Account{}} // F-FIELD
	k := Outer{Ptr: &Account{}} // F-FIELDPTR
	l := new((Account)) // F-PAREN-NEW
	nest := Account{ // F-NEST-OUTER
		next: &Account{ // F-NEST-INNER
			next: new(Account), // F-NEST-NEW
		},
	}
	_ = nest
	var m [2]Account // F-ARRAYVAR
	var o Outer // F-OUTERVAR
	for q := 0; q < n; q++ {
		switch {
		case q > 1:
			if r := (Account{}); r.f == 0 { // F-NESTED-BLOCK
				var s Account // F-NESTED-VAR
				_ = s
			}
		}
	}
	go func() {
		defer func() {
			_ = new(Account) // F-DEFER-NEW
		}()
	}()
	_, _, _, _, _, _, _, _, _, _, _, _, _, _ = a, b, c, d, e, f, g, h, i, j, k, l, m, o
}

func Gen[P any](p P) P {
	_ = &Account{} // F-GENERIC
	return p
}

type Q struct{}

func (Q) Make() Account {
	return Account{} // F-METHOD
}

var pkgAlias = Ts{{}} // F-PKG-NAMED

var pkgNew = new(Account) // F-PKG-NEW

const pkgLen = len([1]Account{{f: 5}}) // F-CONST-LEN

type slot [len([1]Account{{}})]byte // F-TYPE-LEN

func Consts() int {
	const lc = len([1]Account{{f: 6}}) // F-LOCAL-CONST
	type ls [len([1]Account{{}})]byte // F-LOCAL-TYPE
	return lc + len(ls{})
}
`

// ZZC02Forms: the annotated type is never spelled in the second file — it is reached through an alias and through named
// slice/map types declared in the first file; elided elements of pointer element type, arrays, nested literals, literals
// as field values, parenthesised type in new, closures inside a constructor, a constructor in the other file, init,
// generic function, method, nested blocks, defer/go closures, package-level vars.
func ZZC02Forms() {
	ctor := nd.EnumPad("ctor", " @constructor NewT", " @constructor MakT, NewT", " @constructor MakT", " plain")
	holes := []nd.Hole{{"ctor", ctor}}
	files := []nd.File{{Pkg: "zzmod/d", Name: "d1.go", Src: c02SrcF1}, {Pkg: "zzmod/d", Name: "d2.go", Src: c02SrcF2}}
	prog := nd.LoadProgram(files, holes)
	res := Analyze(prog, config.Default(), "zzmod/d", Facts{}, "ctor")
	ann := nd.HasPrefix(ctor, " @constructor")
	newListed := nd.Or(nd.HasPrefix(ctor, " @constructor NewT"), nd.HasPrefix(ctor, " @constructor MakT, NewT"))
	makListed := nd.HasPrefix(ctor, " @constructor MakT")
	f1, f2 := "/zz/zzmod/d/d1.go", "/zz/zzmod/d/d2.go"
	exp := []Expect{
		{f1, nd.LineOf(c02SrcF1, "F-CTOR-CLOSURE"), "CTOR01", nd.And(ann, nd.Not(newListed))},
		{f1, nd.LineOf(c02SrcF1, "F-CTOR-CLOSURE-NEW"), "CTOR02", nd.And(ann, nd.Not(newListed))},
		{f2, nd.LineOf(c02SrcF2, "F-MAK-VAR"), "CTOR03", nd.And(ann, nd.Not(makListed))},
		{f2, nd.LineOf(c02SrcF2, "F-MAK-NEW"), "CTOR02", nd.And(ann, nd.Not(makListed))},
		{f2, nd.LineOf(c02SrcF2, "F-MAK-TS"), "CTOR01", nd.And(ann, nd.Not(makListed))},
		{f2, nd.LineOf(c02SrcF2, "F-INIT-ALIAS"), "CTOR01", ann},
		{f2, nd.LineOf(c02SrcF2, "F-ALIAS-LIT"), "CTOR01", ann},
		{f2, nd.LineOf(c02SrcF2, "F-ALIAS-NEW"), "CTOR02", ann},
		{f2, nd.LineOf(c02SrcF2, "F-ALIAS-VAR"), "CTOR03", ann},
		{f2, nd.LineOf(c02SrcF2, "F-NAMED-SLICE"), "CTOR01", ann},
		{f2, nd.LineOf(c02SrcF2, "F-NAMED-PTRMAP"), "CTOR01", ann},
		{f2, nd.LineOf(c02SrcF2, "F-ELIDED-PTR"), "CTOR01", ann},
		{f2, nd.LineOf(c02SrcF2, "F-ELIDED-PTRMAP"), "CTOR01", ann},
		{f2, nd.LineOf(c02SrcF2, "F-ARRAY"), "CTOR01", ann},
		{f2, nd.LineOf(c02SrcF2, "F-NESTED"), "CTOR01", ann},
		{f2, nd.LineOf(c02SrcF2, "F-FIELD"), "CTOR01", ann},
		{f2, nd.LineOf(c02SrcF2, "F-FIELDPTR"), "CTOR01", ann},
		{f2, nd.LineOf(c02SrcF2, "F-PAREN-NEW"), "CTOR02", ann},
		// instantiations nested inside an already reported literal
		{f2, nd.LineOf(c02SrcF2, "F-NEST-OUTER"), "CTOR01", ann},
		{f2, nd.LineOf(c02SrcF2, "F-NEST-INNER"), "CTOR01", ann},
		{f2, nd.LineOf(c02SrcF2, "F-NEST-NEW"), "CTOR02", ann},
		{f2, nd.LineOf(c02SrcF2, "F-NESTED-BLOCK"), "CTOR01", ann},
		{f2, nd.LineOf(c02SrcF2, "F-NESTED-VAR"), "CTOR03", ann},
		{f2, nd.LineOf(c02SrcF2, "F-DEFER-NEW"), "CTOR02", ann},
		{f2, nd.LineOf(c02SrcF2, "F-GENERIC"), "CTOR01", ann},
		{f2, nd.LineOf(c02SrcF2, "F-METHOD"), "CTOR01", ann},
		{f2, nd.LineOf(c02SrcF2, "F-PKG-NAMED"), "CTOR01", ann},
		{f2, nd.LineOf(c02SrcF2, "F-PKG-NEW"), "CTOR02", ann},
		// literals inside constant expressions and type expressions (array lengths), package-level and local
		{f2, nd.LineOf(c02SrcF2, "F-CONST-LEN"), "CTOR01", ann},
		{f2, nd.LineOf(c02SrcF2, "F-TYPE-LEN"), "CTOR01", ann},
		{f2, nd.LineOf(c02SrcF2, "F-LOCAL-CONST"), "CTOR01", ann},
		{f2, nd.LineOf(c02SrcF2, "F-LOCAL-TYPE"), "CTOR01", ann},
	}
	CheckExact(res.Diags, exp, "C02 forms through alias / named collection types, two files")
}

const c02SrcLocal = `package d

//«ctor»
type T struct {
	f int
}

func NewT() *T { return &T{} }

func Local() int {
	type T struct{ f int }
	a := T{f: 1} // L-LIT
	b := new(T) // L-NEW
	var c T // L-VAR
	return a.f + b.f + c.f
}

func Shadow(pt *T) *T {
	new := func(x *T) *T { return x }
	return new(pt) // S-SHADOWED-NEW
}

func Renamed(pt *T) *T {
	mk := func(x *T) *T { return x }
	return mk(pt) // S-RENAMED
}

type Other struct{}

// a METHOD of another type that merely shares the constructor's name is not the function NewT
func (Other) NewT() *T {
	var z T // M-OTHER-VAR
	_ = z
	_ = new(T) // M-OTHER-NEW
	return &T{} // M-OTHER-LIT
}

type NP *T

// a defined pointer type that carries the annotation ITSELF (fixed: always annotated)
// @constructor NewAP
type AP *Other

func NewAP() AP { return &Other{} }

func AnnotatedPointerType() {
	_ = []AP{{}} // P-ANNOTATED-DEFPTR-ELIDED
	_ = new(AP) // P-ANNOTATED-DEFPTR-NEW
}

// a defined pointer type to T that carries an annotation of its own: inside ITS constructor an elided literal still builds a T
// @constructor NewANP
type ANP *T

func NewANP() ANP {
	_ = []ANP{{f: 1}} // P-ANP-IN-OWN-CTOR
	return nil
}

type PT = *T

// new(*T) allocates a pointer variable, not a T
func NewOfPointer() {
	_ = new(*T) // P-NEW-OF-POINTER
	_ = new(PT) // P-NEW-OF-ALIASPTR
	_ = new(NP) // P-NEW-OF-DEFPTR
}

func Parens() {
	_ = (new)(T) // P-PAREN-NEW
	_ = ((new))(T) // P-PAREN2-NEW
	_ = []NP{{f: 1}} // P-NAMEDPTR-ELIDED
	_ = map[string]NP{"k": {}} // P-NAMEDPTR-MAP
}
`

// ZZC02Local: a function-local type that shares the annotated type's name, and a local function value named new
// (calling it is not an instantiation; renaming it must not change the verdict — C12).
func ZZC02Local() {
	ctor := nd.EnumPad("ctor", " @constructor NewT", " plain")
	prog := nd.LoadProgram([]nd.File{{Pkg: "zzmod/d", Name: "d.go", Src: c02SrcLocal}}, []nd.Hole{{"ctor", ctor}})
	res := Analyze(prog, config.Default(), "zzmod/d", Facts{}, "ctor")
	ann := nd.HasPrefix(ctor, " @constructor")
	f := "/zz/zzmod/d/d.go"
	CheckExact(res.Diags, []Expect{
		{f, nd.LineOf(c02SrcLocal, "M-OTHER-VAR"), "CTOR03", ann},
		{f, nd.LineOf(c02SrcLocal, "M-OTHER-NEW"), "CTOR02", ann},
		{f, nd.LineOf(c02SrcLocal, "M-OTHER-LIT"), "CTOR01", ann},
		{f, nd.LineOf(c02SrcLocal, "P-PAREN-NEW"), "CTOR02", ann},
		{f, nd.LineOf(c02SrcLocal, "P-PAREN2-NEW"), "CTOR02", ann},
		{f, nd.LineOf(c02SrcLocal, "P-NAMEDPTR-ELIDED"), "CTOR01", ann},
		{f, nd.LineOf(c02SrcLocal, "P-NAMEDPTR-MAP"), "CTOR01", ann},
		// the defined pointer type AP is annotated itself: its elided literals are literals "of the type"
		{f, nd.LineOf(c02SrcLocal, "P-ANNOTATED-DEFPTR-ELIDED"), "CTOR01", true},
		{f, nd.LineOf(c02SrcLocal, "P-ANNOTATED-DEFPTR-NEW"), "CTOR02", true},
		{f, nd.LineOf(c02SrcLocal, "P-ANP-IN-OWN-CTOR"), "CTOR01", ann},
		// P-NEW-OF-POINTER, P-NEW-OF-ALIASPTR, P-NEW-OF-DEFPTR: nothing (no T is allocated, *T does not carry the annotation)
	}, "C02 local type / shadowed new are no instantiations; a same-named method of another type, (new)(T) and elided literals of a named pointer type are")
}
