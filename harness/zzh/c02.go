package zzh

import (
	"github.com/a14e/gogreement/src/config"
	"github.com/a14e/gogreement/src/zzverif/nd"
)

const c02SrcA = `package d

//«ctor»
type T struct {
	f int
}

type Q struct {
	f int
}

//«ctor2»
type T2 struct {
	g int
}

func NewT2() *T2 {
	_ = T{} // SITE-T-IN-NEWT2
	return &T2{} // SITE-T2-IN-NEWT2
}

var before = T{} // SITE-PKGVAR-BEFORE

func NewT() *T {
	var z T // SITE-CTOR-VAR
	_ = z
	p := new(T) // SITE-CTOR-NEW
	_ = p
	var other T2 // SITE-T2-INSIDE-NEWT
	_ = other
	return &T{f: 1} // SITE-CTOR-LIT
}

var after = &T{} // SITE-PKGVAR-AFTER

var zero T // SITE-PKGVAR-ZERO

func MakT() T {
	return T{} // SITE-MAK-LIT
}

func Other() {
	a := T{} // SITE-LIT
	b := &T{f: 2} // SITE-PTRLIT
	c := []T{{f: 3}} // SITE-ELIDED
	d := map[string]T{"k": {}} // SITE-MAPELIDED
	e := new(T) // SITE-NEW
	var f T // SITE-VAR
	var g, h T // SITE-VAR2
	var p *T // SITE-PTRVAR
	var _ T // SITE-BLANK
	var i T = *e // SITE-VARINIT
	q := Q{} // SITE-UNANNOTATED
	var r Q // SITE-UNANNOTATED-VAR
	func() {
		_ = T{} // SITE-CLOSURE
	}()
	_, _, _, _, _, _, _, _, _, _, _, _ = a, b, c, d, e, f, g, h, p, i, q, r
}
`

// ZZC02Basic: every instantiation form, inside/outside the listed constructors, package level before/after.
func ZZC02Basic() {
	ctor := nd.EnumPad("ctor", " @constructor NewT", " @constructor NewT, MakT", " @constructor MakT ,", " plain")
	ctor2 := nd.EnumPad("ctor2", " @constructor NewT2", " @constructor NewT2, NewT", " plain")
	holes := []nd.Hole{{"ctor", ctor}, {"ctor2", ctor2}}
	files := []nd.File{{Pkg: "zzmod/d", Name: "d.go", Src: c02SrcA}}
	prog := nd.LoadProgram(files, holes)
	res := Analyze(prog, config.Default(), "zzmod/d", Facts{}, "ctor")

	ann := nd.HasPrefix(ctor, " @constructor")
	newListed := nd.Or(nd.HasPrefix(ctor, " @constructor NewT "), nd.HasPrefix(ctor, " @constructor NewT,"))
	makListed := nd.Or(nd.HasPrefix(ctor, " @constructor NewT, MakT"), nd.HasPrefix(ctor, " @constructor MakT"))
	src := c02SrcA
	file := "/zz/zzmod/d/d.go"
	nd.Known("C02/pkgvar-after-constructor", nd.And(ann, newListed))
	ann2 := nd.HasPrefix(ctor2, " @constructor")
	newTListedFor2 := nd.HasPrefix(ctor2, " @constructor NewT2, NewT")
	exp := []Expect{
		// the exemption is per (function, type): a constructor of one type is an ordinary function for another type
		{file, nd.LineOf(src, "SITE-T-IN-NEWT2"), "CTOR01", ann},
		{file, nd.LineOf(src, "SITE-T2-IN-NEWT2"), "CTOR01", false},
		{file, nd.LineOf(src, "SITE-T2-INSIDE-NEWT"), "CTOR03", nd.And(ann2, nd.Not(newTListedFor2))},
		{file, nd.LineOf(src, "SITE-PKGVAR-BEFORE"), "CTOR01", ann},
		{file, nd.LineOf(src, "SITE-CTOR-VAR"), "CTOR03", nd.And(ann, nd.Not(newListed))},
		{file, nd.LineOf(src, "SITE-CTOR-NEW"), "CTOR02", nd.And(ann, nd.Not(newListed))},
		{file, nd.LineOf(src, "SITE-CTOR-LIT"), "CTOR01", nd.And(ann, nd.Not(newListed))},
		{file, nd.LineOf(src, "SITE-PKGVAR-AFTER"), "CTOR01", ann},
		{file, nd.LineOf(src, "SITE-PKGVAR-ZERO"), "CTOR03", ann},
		{file, nd.LineOf(src, "SITE-MAK-LIT"), "CTOR01", nd.And(ann, nd.Not(makListed))},
		{file, nd.LineOf(src, "SITE-LIT"), "CTOR01", ann},
		{file, nd.LineOf(src, "SITE-PTRLIT"), "CTOR01", ann},
		{file, nd.LineOf(src, "SITE-ELIDED"), "CTOR01", ann},
		{file, nd.LineOf(src, "SITE-MAPELIDED"), "CTOR01", ann},
		{file, nd.LineOf(src, "SITE-NEW"), "CTOR02", ann},
		{file, nd.LineOf(src, "SITE-VAR"), "CTOR03", ann},
		{file, nd.LineOf(src, "SITE-VAR2"), "CTOR03", ann},
		{file, nd.LineOf(src, "SITE-CLOSURE"), "CTOR01", ann},
	}
	CheckExact(res.Diags, exp, "C02 instantiation forms")
}
