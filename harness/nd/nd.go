// Package nd provides nondeterministic inputs, assumptions and assertions for verification harnesses.
// The symbolic engine intercepts every function of this package; the bodies below are the native
// implementation used when a solver model is replayed against the real build (values come from the
// JSON model named by $ND_MODEL).
package nd

import (
	"encoding/json"
	"fmt"
	"os"
	"strings"
)

var (
	model    map[string]interface{}
	loaded   bool
	Failures []string
	Observed = map[string]interface{}{}
	Reached  []string
)

func load() {
	if loaded {
		return
	}
	loaded = true
	model = map[string]interface{}{}
	if p := os.Getenv("ND_MODEL"); p != "" {
		b, err := os.ReadFile(p)
		if err != nil {
			panic(err)
		}
		dec := json.NewDecoder(strings.NewReader(string(b)))
		dec.UseNumber()
		if err := dec.Decode(&model); err != nil {
			panic(err)
		}
	}
}

// SetModel installs a model directly (used by generated replay tests) and applies env_* inputs.
func SetModel(m map[string]interface{}) {
	loaded = true
	model = m
	Failures = nil
	Observed = map[string]interface{}{}
	Reached = nil
	for k, v := range m {
		if strings.HasPrefix(k, "env_") && strings.HasSuffix(k, "_set") {
			key := strings.TrimSuffix(strings.TrimPrefix(k, "env_"), "_set")
			if b, _ := v.(bool); b {
				s, _ := m["env_"+key].(string)
				os.Setenv(key, s)
			} else {
				os.Unsetenv(key)
			}
		}
	}
}

func sanitize(s string) string {
	var b strings.Builder
	for _, c := range s {
		if (c >= 'a' && c <= 'z') || (c >= 'A' && c <= 'Z') || (c >= '0' && c <= '9') || c == '_' {
			b.WriteRune(c)
		} else {
			b.WriteByte('_')
		}
	}
	return b.String()
}

func get(name string) (interface{}, bool) {
	load()
	v, ok := model[sanitize(name)]
	return v, ok
}

func Int(name string) int {
	v, ok := get(name)
	if !ok {
		return 0
	}
	switch x := v.(type) {
	case json.Number:
		n, _ := x.Int64()
		return int(n)
	case float64:
		return int(x)
	case int:
		return x
	case int64:
		return int(x)
	}
	return 0
}

func Bool(name string) bool {
	v, ok := get(name)
	if !ok {
		return false
	}
	b, _ := v.(bool)
	return b
}

func str(name string) string {
	v, ok := get(name)
	if !ok {
		return ""
	}
	s, _ := v.(string)
	return s
}

// Str is an arbitrary ASCII string of length <= max.
func Str(name string, max int) string { return str(name) }

// Buf is an arbitrary string without a static length bound.
func Buf(name string) string { return str(name) }

// Atom is an arbitrary string that the code under test may only compare for equality.
func Atom(name string) string { return str(name) }

// Enum is one of the given alternatives.
func Enum(name string, alts ...string) string {
	v, ok := get(name)
	if !ok {
		return alts[len(alts)-1]
	}
	s, _ := v.(string)
	return s
}

func Assume(c bool) {
	if !c {
		Failures = append(Failures, "ASSUME-VIOLATED (model does not satisfy an assumption)")
	}
}

func Assert(c bool, msg string) {
	Reached = append(Reached, msg)
	if !c {
		Failures = append(Failures, "ASSERT-FAILED: "+msg)
	}
}

func Known(key string, c bool) {}

func Observe(name string, v interface{}) { Observed[name] = fmt.Sprintf("%v", v) }

func And(cs ...bool) bool {
	for _, c := range cs {
		if !c {
			return false
		}
	}
	return true
}

func Or(cs ...bool) bool {
	for _, c := range cs {
		if c {
			return true
		}
	}
	return false
}

func Not(c bool) bool          { return !c }
func Implies(a, b bool) bool   { return !a || b }
func Iff(a, b bool) bool       { return a == b }
func StrEq(a, b string) bool   { return a == b }
func Contains(a, b string) bool  { return strings.Contains(a, b) }
func HasSuffix(a, b string) bool { return strings.HasSuffix(a, b) }
func HasPrefix(a, b string) bool { return strings.HasPrefix(a, b) }
func IteInt(c bool, a, b int) int {
	if c {
		return a
	}
	return b
}

func CountByte(s string, b byte) int { return strings.Count(s, string([]byte{b})) }

// Symbolic reports whether the harness is being executed symbolically.
func Symbolic() bool { return false }

func Reach(tag string) { Reached = append(Reached, "reach:"+tag) }

func IteStr(c bool, a, b string) string {
	if c {
		return a
	}
	return b
}

// EnumPad is Enum with all alternatives padded by trailing blanks to the same length (so that source
// positions in a skeleton do not depend on the choice).
func EnumPad(name string, alts ...string) string {
	m := 0
	for _, a := range alts {
		if len(a) > m {
			m = len(a)
		}
	}
	padded := make([]string, len(alts))
	for i, a := range alts {
		padded[i] = a + strings.Repeat(" ", m-len(a))
	}
	v, ok := get(name)
	if !ok {
		return padded[len(padded)-1]
	}
	s, _ := v.(string)
	return s + strings.Repeat(" ", m-len(s))
}

// Pin returns x; symbolically it forks over the feasible values of x so that each path continues with a concrete
// value (use only when few values are feasible).
func Pin(x int) int { return x }

// PinStr returns s; symbolically it forks over the alternatives of a finite-domain string so that each path continues
// with a concrete value.
func PinStr(s string) string { return s }
