package nd

import (
	"fmt"
	"go/ast"
	"go/importer"
	"go/parser"
	"go/token"
	"go/types"
	"sort"
	"strings"
)

// File is one source file of a program skeleton. Src may contain hole markers «name».
type File struct {
	Pkg  string // import path of the package, e.g. "zzmod/d"
	Name string // file name relative to the package directory, e.g. "d.go" (may itself be a hole marker «name»)
	Src  string
}

// Hole gives the value of a marker «Name». All alternatives of a hole have the same byte length
// (the generator pads), so token positions do not depend on the choice.
type Hole struct {
	Name  string
	Value string // nd.Enum(...) result
}

// Prog is a parsed and type-checked multi-package program.
type Prog struct {
	fset  *token.FileSet
	files map[string][]*ast.File
	pkgs  map[string]*types.Package
	infos map[string]*types.Info
	srcs  map[string]string // full file name -> substituted source
	order []string
}

var stdImporter types.Importer

type progImporter struct{ p *Prog }

func (pi progImporter) Import(path string) (*types.Package, error) {
	if p, ok := pi.p.pkgs[path]; ok {
		return p, nil
	}
	if stdImporter == nil {
		stdImporter = importer.ForCompiler(token.NewFileSet(), "source", nil)
	}
	return stdImporter.Import(path)
}

func subst(s string, holes []Hole) string {
	for _, h := range holes {
		s = strings.ReplaceAll(s, "«"+h.Name+"»", h.Value)
	}
	return s
}

// LoadProgram parses and type-checks the files (packages in dependency order of first appearance).
// Files named *_test.go with package clause <name>_test are not supported (one package per directory).
func LoadProgram(files []File, holes []Hole) *Prog {
	p := &Prog{fset: token.NewFileSet(), files: map[string][]*ast.File{}, pkgs: map[string]*types.Package{}, infos: map[string]*types.Info{}, srcs: map[string]string{}}
	for _, f := range files {
		if _, ok := p.files[f.Pkg]; !ok {
			p.order = append(p.order, f.Pkg)
			p.files[f.Pkg] = nil
		}
		name := "/zz/" + f.Pkg + "/" + subst(f.Name, holes)
		src := subst(f.Src, holes)
		af, err := parser.ParseFile(p.fset, name, src, parser.ParseComments|parser.SkipObjectResolution)
		if err != nil {
			panic(fmt.Sprintf("skeleton does not parse: %v", err))
		}
		p.files[f.Pkg] = append(p.files[f.Pkg], af)
		p.srcs[name] = src
	}
	for _, path := range p.order {
		info := &types.Info{
			Types:      map[ast.Expr]types.TypeAndValue{},
			Defs:       map[*ast.Ident]types.Object{},
			Uses:       map[*ast.Ident]types.Object{},
			Implicits:  map[ast.Node]types.Object{},
			Selections: map[*ast.SelectorExpr]*types.Selection{},
			Scopes:     map[ast.Node]*types.Scope{},
			Instances:  map[*ast.Ident]types.Instance{},
		}
		conf := types.Config{Importer: progImporter{p}}
		pkg, err := conf.Check(path, p.fset, p.files[path], info)
		if err != nil {
			panic(fmt.Sprintf("skeleton does not type-check: %v", err))
		}
		p.pkgs[path] = pkg
		p.infos[path] = info
	}
	return p
}

func (p *Prog) Fset() *token.FileSet          { return p.fset }
func (p *Prog) Files(pkg string) []*ast.File  { return p.files[pkg] }
func (p *Prog) Pkg(pkg string) *types.Package { return p.pkgs[pkg] }
func (p *Prog) Info(pkg string) *types.Info   { return p.infos[pkg] }

// Source returns the (substituted) text of a file by the name the file set reports.
func (p *Prog) Source(filename string) (string, bool) {
	s, ok := p.srcs[filename]
	return s, ok
}

func (p *Prog) FileNames() []string {
	var out []string
	for n := range p.srcs {
		out = append(out, n)
	}
	sort.Strings(out)
	return out
}

// LineOf returns the 1-based line of the first occurrence of needle in the (unsubstituted) source.
// Hole alternatives never contain newlines, so the line is independent of hole values.
func LineOf(src, needle string) int {
	i := -1
	if strings.Count(src, needle+"\n") == 1 {
		i = strings.Index(src, needle+"\n")
	} else if strings.Count(src, needle) == 1 {
		i = strings.Index(src, needle)
	}
	if i < 0 {
		panic("LineOf: needle not found or not unique: " + needle)
	}
	return 1 + strings.Count(src[:i], "\n")
}

// OffsetOf returns the byte offset of needle in the source after substituting every hole by an
// alternative (all alternatives of a hole have equal length, so any will do): holes carries one.
func OffsetOf(src string, holes []Hole, needle string) int {
	i := strings.Index(src, needle)
	if i < 0 {
		panic("OffsetOf: needle not found: " + needle)
	}
	return len(subst(src[:i], holes))
}

// PosOf converts a byte offset in the named file into a token.Pos of the program's file set.
func (p *Prog) PosOf(filename string, offset int) token.Pos {
	var res token.Pos
	p.fset.Iterate(func(f *token.File) bool {
		if f.Name() == filename {
			res = f.Pos(offset)
			return false
		}
		return true
	})
	return res
}

// LineStartOf returns the offset (in the substituted source) of the first byte of the line that contains needle.
func LineStartOf(src string, holes []Hole, needle string) int {
	i := strings.Index(src, needle)
	if i < 0 {
		panic("LineStartOf: needle not found: " + needle)
	}
	s := subst(src[:i], holes)
	return strings.LastIndex(s, "\n") + 1
}

// PoisonFiles / PoisonInfo / PoisonFset: values that must never be read. Symbolically any read aborts the run as
// inconclusive, which turns "returns no violation" into "returns no violation without having looked at any file".
func PoisonFiles() []*ast.File  { return nil }
func PoisonInfo() *types.Info   { return nil }
func PoisonFset() *token.FileSet { return nil }

// FsetFor returns a file set holding one file (name, content) and the token.Pos of (line, col) in it.
// Requires 1 <= line <= number of lines of content and col >= 1 within the file.
func FsetFor(name, content string, line, col int) (*token.FileSet, token.Pos) {
	fset := token.NewFileSet()
	f := fset.AddFile(name, -1, len(content))
	f.SetLinesForContent([]byte(content))
	return fset, f.LineStart(line) + token.Pos(col-1)
}
