package codes

import (
	"iter"

	"github.com/a14e/gogreement/src/zzverif/nd"
)

// ZZCategoryOf is a branch-free description of "the category a code belongs to" ("" if none),
// used (a) as the summary of the hierarchy in ZZCodesSummary and (b) by oracles.  It is written from the
// documented code table, not derived from CodesByCategory; ZZLemmaCodesSummary checks it against the real code.
func ZZCategoryOf(code string) string {
	r := ""
	r = nd.IteStr(nd.Or(code == "IMM01", code == "IMM02", code == "IMM03", code == "IMM04"), "IMM", r)
	r = nd.IteStr(nd.Or(code == "CTOR01", code == "CTOR02", code == "CTOR03"), "CTOR", r)
	r = nd.IteStr(nd.Or(code == "TONL01", code == "TONL02", code == "TONL03"), "TONL", r)
	r = nd.IteStr(nd.Or(code == "PKGO01", code == "PKGO02", code == "PKGO03"), "PKGO", r)
	r = nd.IteStr(nd.Or(code == "IMPL01", code == "IMPL02", code == "IMPL03"), "IMPL", r)
	return r
}

// ZZCodesSummary is the summary that replaces GetCodesForCheck in harnesses that would otherwise fork 22 ways
// on the table lookup: ALL, then the category (if any), then the code itself.
func ZZCodesSummary(code string) iter.Seq[string] {
	return func(yield func(string) bool) {
		if !yield("ALL") {
			return
		}
		cat := ZZCategoryOf(code)
		if cat != "" {
			if !yield(cat) {
				return
			}
		}
		yield(code)
	}
}

// ZZLemmaCodesSummary: for every string `code` (an atom: arbitrary content and length) the real
// GetCodesForCheck yields exactly the sequence of the summary.
func ZZLemmaCodesSummary() {
	code := nd.Atom("code")
	var real, sum []string
	for c := range GetCodesForCheck(code) {
		real = append(real, c)
	}
	for c := range ZZCodesSummary(code) {
		sum = append(sum, c)
	}
	nd.Assert(len(real) == len(sum), "hierarchy list has the documented length")
	for i := range real {
		if i < len(sum) {
			nd.Assert(real[i] == sum[i], "hierarchy list element equals ALL / category / code")
		}
	}
	// early termination: a consumer that stops after the first element sees only ALL
	n := 0
	for c := range GetCodesForCheck(code) {
		n++
		nd.Assert(c == "ALL", "first element is ALL")
		break
	}
	nd.Assert(n == 1, "iterator honours early termination")
}
