package analyzer

import (
	"flag"
	"go/types"

	"golang.org/x/tools/go/analysis"

	"github.com/a14e/gogreement/src/annotations"
	"github.com/a14e/gogreement/src/config"
	"github.com/a14e/gogreement/src/ignore"
	"github.com/a14e/gogreement/src/util"
	"github.com/a14e/gogreement/src/zzverif/nd"
)

const zzSrcE = `package e

// @immutable
// @constructor NewE
type E struct {
	F int
}

func NewE() *E { return &E{} }
`

const zzSrcD = `package d

import "zzmod/e"

func Use(x *e.E) {
	x.F = 1
}
`

// arbitrary local annotations: each list empty or one entry (names are opaque)
func zzAnnotations() annotations.PackageAnnotations {
	var a annotations.PackageAnnotations
	// names with exported and unexported spellings: values of unexported types, functions and fields reach importers
	// through exported aliases, results and variables, so their annotations belong in the fact like any other
	T := nd.PinStr(nd.Enum("type_name", "T", "hidden"))
	Use := nd.PinStr(nd.Enum("func_name", "Use", "use"))
	fld := nd.PinStr(nd.Enum("field_name", "F", "f"))
	if nd.Bool("has_impl") {
		a.ImplementsAnnotations = append(a.ImplementsAnnotations, annotations.ImplementsAnnotation{OnType: T, InterfaceName: "I", PackageNotFound: nd.Bool("impl_notfound"), PackageFullPath: "zzmod/d"})
	}
	if nd.Bool("has_ctor") {
		a.ConstructorAnnotations = append(a.ConstructorAnnotations, annotations.ConstructorAnnotation{OnType: T, ConstructorNames: []string{Use}})
	}
	if nd.Bool("has_imm") {
		a.ImmutableAnnotations = append(a.ImmutableAnnotations, annotations.ImmutableAnnotation{OnType: T})
	}
	if nd.Bool("has_test") {
		a.TestonlyAnnotations = append(a.TestonlyAnnotations, annotations.TestOnlyAnnotation{Kind: annotations.TestOnlyOnFunc, ObjectName: Use})
	}
	if nd.Bool("has_mut") {
		a.MutableAnnotations = append(a.MutableAnnotations, annotations.MutableAnnotation{OnType: T, FieldName: fld})
	}
	if nd.Bool("has_pkgo") {
		a.PackageOnlyAnnotations = append(a.PackageOnlyAnnotations, annotations.PackageOnlyAnnotation{Kind: annotations.TestOnlyOnFunc, ObjectName: Use, AllowedPackages: []string{"zzmod/d"}})
	}
	return a
}

func zzSameAnnotations(x, y *annotations.PackageAnnotations) bool {
	if !(len(x.ImplementsAnnotations) == len(y.ImplementsAnnotations) &&
		len(x.ConstructorAnnotations) == len(y.ConstructorAnnotations) &&
		len(x.ImmutableAnnotations) == len(y.ImmutableAnnotations) &&
		len(x.TestonlyAnnotations) == len(y.TestonlyAnnotations) &&
		len(x.MutableAnnotations) == len(y.MutableAnnotations) &&
		len(x.PackageOnlyAnnotations) == len(y.PackageOnlyAnnotations)) {
		return false
	}
	for i := range x.ImplementsAnnotations {
		if x.ImplementsAnnotations[i].OnType != y.ImplementsAnnotations[i].OnType {
			return false
		}
	}
	for i := range x.ConstructorAnnotations {
		if x.ConstructorAnnotations[i].OnType != y.ConstructorAnnotations[i].OnType || len(x.ConstructorAnnotations[i].ConstructorNames) != len(y.ConstructorAnnotations[i].ConstructorNames) || x.ConstructorAnnotations[i].ConstructorNames[0] != y.ConstructorAnnotations[i].ConstructorNames[0] {
			return false
		}
	}
	for i := range x.ImmutableAnnotations {
		if x.ImmutableAnnotations[i].OnType != y.ImmutableAnnotations[i].OnType {
			return false
		}
	}
	for i := range x.TestonlyAnnotations {
		if x.TestonlyAnnotations[i].ObjectName != y.TestonlyAnnotations[i].ObjectName || x.TestonlyAnnotations[i].Kind != y.TestonlyAnnotations[i].Kind {
			return false
		}
	}
	for i := range x.MutableAnnotations {
		if x.MutableAnnotations[i].OnType != y.MutableAnnotations[i].OnType || x.MutableAnnotations[i].FieldName != y.MutableAnnotations[i].FieldName {
			return false
		}
	}
	for i := range x.PackageOnlyAnnotations {
		if x.PackageOnlyAnnotations[i].ObjectName != y.PackageOnlyAnnotations[i].ObjectName || len(x.PackageOnlyAnnotations[i].AllowedPackages) != len(y.PackageOnlyAnnotations[i].AllowedPackages) {
			return false
		}
	}
	return true
}

// ZZC06Export: every checker exports the package's annotations as its fact exactly once on every path — whatever the
// annotations are, whether or not the checker finds anything to do (early returns included).
func ZZC06Export() {
	prog := nd.LoadProgram([]nd.File{{Pkg: "zzmod/e", Name: "e.go", Src: zzSrcE}, {Pkg: "zzmod/d", Name: "d.go", Src: zzSrcD}}, nil)
	local := zzAnnotations()
	cfg := config.Default()
	which := nd.Int("checker")
	nd.Assume(0 <= which)
	nd.Assume(which <= 4)
	exports := 0
	var exported *annotations.PackageAnnotations
	pass := &analysis.Pass{
		Fset:      prog.Fset(),
		Files:     prog.Files("zzmod/d"),
		Pkg:       prog.Pkg("zzmod/d"),
		TypesInfo: prog.Info("zzmod/d"),
		Report:    func(d analysis.Diagnostic) {},
		ReadFile:  func(string) ([]byte, error) { return nil, errNoFile },
		ImportPackageFact: func(p *types.Package, fact analysis.Fact) bool {
			return false
		},
		ExportPackageFact: func(fact analysis.Fact) {
			exports++
			if w, ok := fact.(annotations.AnnotationWrapper); ok {
				exported = w.GetAnnotations()
			}
		},
		ResultOf: map[*analysis.Analyzer]interface{}{
			ConfigReader:     cfg,
			AnnotationReader: local,
			IgnoreReader:     ignore.IgnoreResult{IgnoreSet: &util.IgnoreSet{}},
		},
	}
	var err error
	switch which {
	case 0:
		_, err = runImplementsChecker(pass)
	case 1:
		_, err = runImmutableChecker(pass)
	case 2:
		_, err = runConstructorChecker(pass)
	case 3:
		_, err = runTestOnlyChecker(pass)
	default:
		_, err = runPackageOnlyChecker(pass)
	}
	nd.Assert(err == nil, "checker returns without error")
	nd.Assert(exports == 1, "the fact is exported exactly once on every path")
	nd.Assert(exported != nil && zzSameAnnotations(exported, &local), "the exported fact carries the package's own annotations")
}

type zzErr struct{}

func (zzErr) Error() string { return "no file" }

var errNoFile error = zzErr{}

// ZZC06Reader: the annotation reader exports what it read (and returns it as its result).
func ZZC06Reader() {
	annE := nd.EnumPad("annE", " @immutable", " @testonly", " @packageonly w, x", " plain")
	src := `package e

//«annE»
type E struct {
	F int
}
`
	prog := nd.LoadProgram([]nd.File{{Pkg: "zzmod/e", Name: "e.go", Src: src}}, []nd.Hole{{"annE", annE}})
	exports := 0
	var exported *annotations.PackageAnnotations
	pass := &analysis.Pass{
		Fset: prog.Fset(), Files: prog.Files("zzmod/e"), Pkg: prog.Pkg("zzmod/e"), TypesInfo: prog.Info("zzmod/e"),
		ExportPackageFact: func(fact analysis.Fact) {
			exports++
			exported = fact.(annotations.AnnotationWrapper).GetAnnotations()
		},
		ResultOf: map[*analysis.Analyzer]interface{}{ConfigReader: config.Default()},
	}
	res, err := runAnnotationReader(pass)
	nd.Assert(err == nil && exports == 1, "reader exports its fact exactly once")
	got := res.(annotations.PackageAnnotations)
	nd.Assert(zzSameAnnotations(exported, &got), "exported fact = returned result")
	n := len(got.ImmutableAnnotations) + len(got.TestonlyAnnotations) + len(got.PackageOnlyAnnotations)
	nd.Assert((n == 1) == nd.Not(nd.HasPrefix(annE, " plain")), "the fact carries the annotation that is in the source")
	for _, p := range got.PackageOnlyAnnotations {
		nd.Assert(len(p.AllowedPackages) == 3 && p.AllowedPackages[0] == "zzmod/e" && p.AllowedPackages[1] == "w" && p.AllowedPackages[2] == "x", "allow-list travels complete and in order, declaring package first")
	}
}

var _ = flag.ErrHelp
