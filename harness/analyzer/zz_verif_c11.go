package analyzer

import (
	"sync"

	"golang.org/x/tools/go/analysis"

	"github.com/a14e/gogreement/src/config"
	"github.com/a14e/gogreement/src/zzverif/nd"
)

// ZZC11Config: the only shared state of the analyzers is the configuration cache. Two package actions (any two passes,
// in either order) obtain the SAME configuration object, equal to the resolution of the analyzer's flag set; the cache is
// written inside sync.Once only (the engine records every store to package-level state outside Once.Do).
func ZZC11Config() {
	// the cache is process-global: start every case from the state of a fresh process (matters for native replay,
	// where several cases run in one test binary)
	configOnce = sync.Once{}
	cachedConfig = config.Empty()
	for _, v := range []string{"GOGREEMENT_ENV_ONLY", "GOGREEMENT_SCAN_TESTS", "GOGREEMENT_EXCLUDE_PATHS", "GOGREEMENT_EXCLUDE_CHECKS"} {
		nd.Assume(!nd.Bool("env_" + v + "_set")) // resolution from the environment is C18's subject
	}
	an := &analysis.Analyzer{Name: "config", Flags: *config.CreateFlagSet()}
	if nd.Bool("flag_scan_given") {
		an.Flags.Set("scan-tests", nd.Enum("flag_scan_val", "true", "false"))
	}
	if nd.Bool("flag_checks_given") {
		an.Flags.Set("exclude-checks", nd.Enum("flag_checks_val", "imm01, CTOR", "all", ""))
	}
	passA := &analysis.Pass{Analyzer: an}
	passB := &analysis.Pass{Analyzer: an}
	first, second := passA, passB
	if nd.Bool("b_runs_first") {
		first, second = passB, passA
	}
	r1, err1 := runConfig(first)
	r2, err2 := runConfig(second)
	r3, _ := runConfig(first)
	nd.Assert(err1 == nil && err2 == nil, "no error")
	c1 := r1.(*config.Config)
	c2 := r2.(*config.Config)
	nd.Assert(c1 == c2 && r3.(*config.Config) == c1, "every package action sees the same configuration object, whatever the order")
	want := config.ParseFlagsFromFlagSet(&an.Flags)
	nd.Assert(c1.ScanTests == want.ScanTests && len(c1.ExcludeChecks) == len(want.ExcludeChecks) && len(c1.ExcludePaths) == len(want.ExcludePaths), "the shared configuration is the resolution of the flags")
}
