package ignore

import (
	"regexp"
	"strings"

	"github.com/a14e/gogreement/src/zzverif/nd"
)

// frozen reference: HEAD(ignore) WS+ LIST(C) REST with C = [0-9A-Za-z]+ ; value = upper-cased items
const (
	zzWS   = `[\t\n\f\r ]`
	zzHead = `^` + zzWS + `*//` + zzWS + `*@`
	zzRest = `(?:` + zzWS + `+[^\n]*)?$`
	zzC    = `[0-9A-Za-z]+`
)

var zzRefIgnore = regexp.MustCompile(zzHead + `ignore(?:` + zzWS + `+(` + zzC + `(?:` + zzWS + `*,` + zzWS + `*` + zzC + `)*(?:` + zzWS + `*,)?))?` + zzRest)

func zzRefCodes(s string) []string {
	out := []string{}
	s = strings.TrimSpace(s)
	if s == "" {
		return out
	}
	for _, p := range strings.Split(s, ",") {
		t := strings.TrimSpace(p)
		if t != "" {
			out = append(out, strings.ToUpper(t))
		}
	}
	return out
}

func zzC15Ignore(n int) {
	text := nd.Str("text", n)
	got := parseIgnoreAnnotation(text, 5, 9)
	m := zzRefIgnore.FindStringSubmatch(text)
	var want []string
	if m != nil {
		want = zzRefCodes(m[1])
	}
	nd.Assert((got != nil) == (len(want) > 0), "@ignore recognised iff reference accepts a non-empty code list")
	if got != nil {
		nd.Observe("codes", got.Codes)
		nd.Assert(len(got.Codes) == len(want), "@ignore codes: same number of items")
		for i := range got.Codes {
			if i < len(want) {
				nd.Assert(got.Codes[i] == want[i], "@ignore codes: same item (upper-cased)")
			}
		}
		nd.Assert(got.StartPos == 5 && got.EndPos == 9, "@ignore positions passed through")
		// (that the reader's pre-filters let every accepted line through is decided end to end by ZZC15bIgnoreLines
		// and the C07 spelling harnesses, without naming the filter's implementation)
	}
}

func ZZC15Ignore18() { zzC15Ignore(18) }
func ZZC15Ignore22() { zzC15Ignore(22) }

func ZZC15IgnoreRegex() {
	nd.Observe("ignore", ignoreRegex.String())
	nd.Observe("ref_ignore", zzRefIgnore.String())
	nd.Assert(true, "regex sources observed")
}

// ZZC15Lang: native confirmation of a witness of the unbounded language query for @ignore.
func ZZC15Lang() {
	text := nd.Buf("text")
	nd.Assert(ignoreRegex.MatchString(text) == zzRefIgnore.MatchString(text), "language(ignore) == reference, all lengths")
}

// ZZC09Prefix: native confirmation of a witness of the unbounded inclusion query for @ignore (C09a).
func ZZC09Prefix() {
	text := nd.Buf("text")
	p := regexp.MustCompile(`^[\t\n\f\r ]*//[\t\n\f\r ]*@ignore([\t\n\f\r ](?s:.*))?$`)
	nd.Assert(!ignoreRegex.MatchString(text) || p.MatchString(text), "accepted text has the anchored lowercase @ignore prefix form")
}
