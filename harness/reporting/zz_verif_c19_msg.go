package reporting

import (
	"fmt"
	"github.com/a14e/gogreement/src/zzverif/nd"
	"golang.org/x/tools/go/analysis"
	"strings"
)

// through the exported reporter only (NewReporter / ReportViolation)
// C19-K3: the whole rendered message for an arbitrary small file (<= 3 lines, tabs allowed), arbitrary existing
// diagnostic line and arbitrary column: header, gutter, numbered context lines, the diagnostic's own line, a caret row whose
// prefix repeats the line's tabs, help link.
func ZZC19K3() { zzC19K3(10, 2, "IMM01", "CTOR02", "TONL03", "PKGO01", "IMPL02", "XYZ") }

// small instance for the quick tier
func ZZC19K3Small() { zzC19K3(7, 1, "CTOR02", "XYZ") }

func zzC19K3(maxContent, maxNewlines int, codes ...string) {
	content := nd.Str("content", maxContent)
	nd.Assume(nd.CountByte(content, '\n') <= maxNewlines)
	nd.Assume(nd.CountByte(content, '\t') <= 2)
	nd.Assume(nd.CountByte(content, '\r') == 0) // carriage returns are outside this harness
	// reference line split (what an editor shows): at \n, a final newline does not start a line, one trailing \r is not shown
	raw := strings.Split(content, "\n")
	if raw[len(raw)-1] == "" {
		raw = raw[:len(raw)-1]
	}
	n := len(raw)
	L := nd.Int("diag_line")
	col := nd.Int("diag_col")
	nd.Assume(1 <= L)
	nd.Assume(L <= n)
	nd.Assume(1 <= col)
	shown := raw
	nd.Assume(col <= len(raw[L-1])+1)
	code := nd.Enum("code", codes...)
	msg := nd.Str("msg", 3)
	fset, pos := nd.FsetFor("f.go", content, L, col)
	var got string
	pass := &analysis.Pass{
		Fset:     fset,
		ReadFile: func(name string) ([]byte, error) { return []byte(content), nil },
		Report:   func(d analysis.Diagnostic) { got = d.Message },
	}
	NewReporter(pass, nil).ReportViolation(zzViolation{code: code, msg: msg, pos: pos})

	lo := nd.IteInt(L-2 >= 1, L-2, 1)
	hi := nd.IteInt(L+1 <= n, L+1, n)
	want := "error: [" + code + "] " + msg + "\n" + "  |\n"
	for k := 1; k <= n; k++ {
		if k < lo || k > hi {
			continue
		}
		want += fmt.Sprintf("%d | ", k) + shown[k-1] + "\n"
		if k == L {
			caret := ""
			for i := 1; i < col; i++ {
				if i-1 < len(shown[k-1]) && shown[k-1][i-1] == '\t' {
					caret += "\t"
				} else {
					caret += " "
				}
			}
			want += "  | " + caret + "^\n"
		}
	}
	want += "  |\n   = help: " + zzDocURL(code) + "\n"
	nd.Observe("got", got)
	nd.Assert(got == want, "rendered message = header + numbered window + caret row under the reported column + help link")
}

// C19-K5: history independence. One Reporter renders two diagnostics on the same over-long line (columns from all three
// truncation regimes and their boundaries); the second message must be what a fresh Reporter produces for it.
func ZZC19History() {
	line := strings.Repeat("abcdefghij", 50) // 500 bytes
	content := "short\n" + line + "\nlast\n"
	c1 := nd.Int("col1")
	c2 := nd.Int("col2")
	cols := []int{1, 150, 197, 198, 199, 250, 303, 304, 400, 500, 501}
	ok1, ok2 := false, false
	for _, c := range cols {
		ok1 = nd.Or(ok1, c1 == c)
		ok2 = nd.Or(ok2, c2 == c)
	}
	nd.Assume(ok1)
	nd.Assume(ok2)
	// pin the columns (one path per pair): the caret loops then run on concrete bounds
	c1 = nd.Pin(c1)
	c2 = nd.Pin(c2)
	l2 := nd.Int("line2") // the second diagnostic is on the long line or on a neighbour (long line shown as context)
	nd.Assume(2 <= l2)
	nd.Assume(l2 <= 3)
	l2 = nd.Pin(l2)
	render := func(r *Reporter, pass *analysis.Pass, out *string, ln, col int) string {
		fset, pos := nd.FsetFor("f.go", content, ln, col)
		pass.Fset = fset
		*out = ""
		r.ReportViolation(zzViolation{code: "IMM01", msg: "m", pos: pos})
		return *out
	}
	mk := func(out *string) (*Reporter, *analysis.Pass) {
		pass := &analysis.Pass{
			ReadFile: func(name string) ([]byte, error) { return []byte(content), nil },
			Report:   func(d analysis.Diagnostic) { *out = d.Message },
		}
		return NewReporter(pass, nil), pass
	}
	var o1, o2 string
	shared, sharedPass := mk(&o1)
	render(shared, sharedPass, &o1, 2, c1)
	col2 := nd.IteInt(l2 == 2, c2, 1)
	second := render(shared, sharedPass, &o1, l2, col2)
	fresh, freshPass := mk(&o2)
	want := render(fresh, freshPass, &o2, l2, col2)
	nd.Assert(second == want, "a message does not depend on what the same Reporter rendered before")
}

// C19-K6: long indented lines. A 320-byte line with tabs at the start, in the middle and near the end, diagnostic columns
// from every truncation regime (pinned, 14 values): the caret row has a tab exactly where the DISPLAYED (truncated) line
// has one, and the excerpt/caret are truncateString / calculateDisplayColumn of the original line and column.
func ZZC19Tabs() {
	line := "\t\tif cond {\t" + strings.Repeat("x", 130) + "\tmid\t" + strings.Repeat("y", 150) + "\tend\t" + strings.Repeat("z", 12)
	col := nd.Int("diag_col")
	cols := []int{1, 2, 3, 12, 140, 197, 198, 199, 200, 210, 250, 300, len(line), len(line) + 1}
	ok := false
	for _, c := range cols {
		ok = nd.Or(ok, col == c)
	}
	nd.Assume(ok)
	col = nd.Pin(col)
	fset, pos := nd.FsetFor("f.go", line, 1, col)
	var got string
	pass := &analysis.Pass{
		Fset:     fset,
		ReadFile: func(name string) ([]byte, error) { return []byte(line), nil },
		Report:   func(d analysis.Diagnostic) { got = d.Message },
	}
	NewReporter(pass, nil).ReportViolation(zzViolation{code: "CTOR01", msg: "m", pos: pos})
	t := truncateString(line, MaxLineLength, col)
	d := calculateDisplayColumn(line, col, MaxLineLength)
	caret := ""
	for i := 1; i < d; i++ {
		if i-1 < len(t) && t[i-1] == '\t' {
			caret += "\t"
		} else {
			caret += " "
		}
	}
	want := "error: [CTOR01] m\n  |\n1 | " + t + "\n  | " + caret + "^\n  |\n   = help: " + zzDocURL("CTOR01") + "\n"
	nd.Assert(got == want, "long indented line: caret row repeats the tabs of the displayed line")
	if col <= len(line) {
		nd.Assert(d >= 1 && d <= len(t) && t[d-1] == line[col-1], "long indented line: caret under the reported character")
	}
}

// C19-K7: multi-byte characters. A one-line file of three (thorough: four) "characters", each arbitrary in {a, TAB, À (2 bytes, C3 80), — (3 bytes, E2 80 94),
// nothing}; the diagnostic's column is the byte column of any character boundary (what go/token reports): the caret row has
// ONE cell per character before the column (a tab for a tab), so that the caret stands under the reported character.
func ZZC19Utf8()   { zzC19Utf8(3) }
func ZZC19Utf8x4() { zzC19Utf8(4) }

func zzC19Utf8(n int) {
	alphabet := []string{"a", "\t", "À", "—", ""} // À = C3 80, — = E2 80 94: inner bytes at both ends of 0x80..0xBF
	ch := make([]string, n)
	line := ""
	for i := range ch {
		ch[i] = nd.Enum(fmt.Sprintf("ch%d", i+1), alphabet...)
		line += ch[i]
	}
	line += "x"
	j := nd.Int("boundary")
	nd.Assume(0 <= j)
	nd.Assume(j <= n)
	col := 1
	caret := ""
	for i := range ch {
		col += nd.IteInt(i < j, len(ch[i]), 0)
		cell := nd.IteStr(ch[i] == "\t", "\t", nd.IteStr(ch[i] == "", "", " "))
		caret += nd.IteStr(i < j, cell, "")
	}
	fset, pos := nd.FsetFor("f.go", line, 1, col)
	var got string
	pass := &analysis.Pass{
		Fset:     fset,
		ReadFile: func(name string) ([]byte, error) { return []byte(line), nil },
		Report:   func(d analysis.Diagnostic) { got = d.Message },
	}
	NewReporter(pass, nil).ReportViolation(zzViolation{code: "IMM01", msg: "m", pos: pos})
	want := "error: [IMM01] m\n  |\n1 | " + line + "\n  | " + caret + "^\n  |\n   = help: " + zzDocURL("IMM01") + "\n"
	nd.Observe("got", got)
	nd.Assert(got == want, "multi-byte characters before the column: one caret cell per character")
}

// C19-K9: "however long the source line is" beyond the scanner's default token limit. A file whose second line has 70 000
// bytes; the diagnostic is on that line, or on the short line below it (any of the two, any column of a 3-byte window):
// the excerpt still shows the reported line (truncated) with the caret under the reported character.
func ZZC19VeryLongLine() {
	long := strings.Repeat("abcdefghij", 7000)
	content := "first\n" + long + "\nlast line\n"
	onLong := nd.Bool("diagnostic_on_long_line")
	col := nd.Int("col")
	nd.Assume(1 <= col)
	nd.Assume(col <= 3)
	L := nd.IteInt(onLong, 2, 3)
	fset, pos := nd.FsetFor("f.go", content, nd.Pin(L), col)
	var got string
	pass := &analysis.Pass{
		Fset:     fset,
		ReadFile: func(name string) ([]byte, error) { return []byte(content), nil },
		Report:   func(d analysis.Diagnostic) { got = d.Message },
	}
	NewReporter(pass, nil).ReportViolation(zzViolation{code: "IMM01", msg: "m", pos: pos})
	shownLong := long[:MaxLineLength-3] + "..."
	want := "error: [IMM01] m\n  |\n1 | first\n2 | " + shownLong + "\n"
	if L == 2 {
		want += "  | " + strings.Repeat(" ", col-1) + "^\n3 | last line\n"
	} else {
		want += "3 | last line\n  | " + strings.Repeat(" ", col-1) + "^\n"
	}
	want += "  |\n   = help: " + zzDocURL("IMM01") + "\n"
	nd.Assert(got == want, "a line beyond 64 KiB is shown (truncated) and does not hide the lines after it")
}
