package reporting

import (
	"github.com/a14e/gogreement/src/zzverif/nd"
	"golang.org/x/tools/go/analysis"
	"strings"
)

// exported reporter + truncateString / calculateDisplayColumn
// C19-K4: composition for long lines. One line longer than the display limit (3 arbitrary bytes + 250 fixed bytes + 3
// arbitrary bytes), any column: the rendered excerpt is truncateString(line) and the caret row has
// calculateDisplayColumn(line)-1 cells — both taken on the ORIGINAL line and column (K1 proves those two functions right).
func ZZC19K4() {
	head := nd.Str("head", 3)
	tail := nd.Str("tail", 3)
	nd.Assume(nd.CountByte(head, '\n')+nd.CountByte(tail, '\n') == 0)
	nd.Assume(nd.CountByte(head, '\r')+nd.CountByte(tail, '\r') == 0)
	nd.Assume(nd.CountByte(head, '\t')+nd.CountByte(tail, '\t') == 0)
	line := head + strings.Repeat("x", 250) + tail
	col := nd.Int("diag_col")
	nd.Assume(1 <= col)
	nd.Assume(col <= len(line)+1)
	fset, pos := nd.FsetFor("f.go", line, 1, col)
	var got string
	pass := &analysis.Pass{
		Fset:     fset,
		ReadFile: func(name string) ([]byte, error) { return []byte(line), nil },
		Report:   func(d analysis.Diagnostic) { got = d.Message },
	}
	NewReporter(pass, nil).ReportViolation(zzViolation{code: "IMM01", msg: "m", pos: pos})
	t := truncateString(line, MaxLineLength, col)
	d := calculateDisplayColumn(line, col, MaxLineLength)
	want := "error: [IMM01] m\n  |\n1 | " + t + "\n  | " + strings.Repeat(" ", d-1) + "^\n  |\n   = help: " + zzDocURL("IMM01") + "\n"
	nd.Assert(got == want, "long line: excerpt and caret use the original line and column")
}
