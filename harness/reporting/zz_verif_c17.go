package reporting

import (
	"go/token"
	"strings"

	"golang.org/x/tools/go/analysis"

	"github.com/a14e/gogreement/src/util"
	"github.com/a14e/gogreement/src/zzverif/nd"
)

type zzMarker struct {
	codes      []string
	start, end token.Pos
}

func (a *zzMarker) GetCodes() []string     { return a.codes }
func (a *zzMarker) GetStartPos() token.Pos { return a.start }
func (a *zzMarker) GetEndPos() token.Pos   { return a.end }

func zzCat(code string) string {
	r := ""
	r = nd.IteStr(nd.Or(code == "IMM01", code == "IMM02", code == "IMM03", code == "IMM04"), "IMM", r)
	r = nd.IteStr(nd.Or(code == "CTOR01", code == "CTOR02", code == "CTOR03"), "CTOR", r)
	r = nd.IteStr(nd.Or(code == "TONL01", code == "TONL02", code == "TONL03"), "TONL", r)
	r = nd.IteStr(nd.Or(code == "PKGO01", code == "PKGO02", code == "PKGO03"), "PKGO", r)
	r = nd.IteStr(nd.Or(code == "IMPL01", code == "IMPL02", code == "IMPL03"), "IMPL", r)
	return r
}

// ZZC17Report: the single reporter, for an arbitrary violation (any of the 16 documented codes or an unknown one, any
// message, any position) and an arbitrary marker (7 tokens, any range) plus an arbitrary global token: Report is called
// iff the violation's OWN code is not suppressed at its OWN position, with that position and a message that starts
// "error: [<that code>] <message>" and — the source being unreadable here — has no excerpt but still links to the
// documentation page of the code's category.
func ZZC17Report() {
	code := nd.PinStr(nd.Enum("code", "IMM01", "IMM02", "IMM03", "IMM04", "CTOR01", "CTOR02", "CTOR03", "TONL01", "TONL02", "TONL03", "PKGO01", "PKGO02", "PKGO03", "IMPL01", "IMPL02", "IMPL03", "ZZZ9"))
	msg := nd.Str("msg", 4)
	mtok := nd.Enum("marker_token", "ALL", "IMM", "IMM02", "CTOR", "TONL03", "PKGO01", "IMPL", "JUNK")
	gtok := nd.Enum("global_token", "", "ALL", "TONL", "CTOR02", "ZZZ9")
	ms, me := nd.Int("marker_start"), nd.Int("marker_end")
	nd.Assume(1 <= ms)
	nd.Assume(ms <= 1<<31-1)
	nd.Assume(1 <= me)
	nd.Assume(me <= 1<<31-1)
	set := &util.IgnoreSet{}
	if gtok != "" {
		set.AddModuleIgnore([]string{gtok})
	}
	set.Add(&zzMarker{codes: []string{mtok}, start: token.Pos(ms), end: token.Pos(me)})
	fset, pos := nd.FsetFor("f.go", "x\n", 1, 1)
	reports := 0
	var gotMsg string
	var gotPos token.Pos
	pass := &analysis.Pass{
		Fset:     fset,
		ReadFile: func(string) ([]byte, error) { return nil, errUnreadable },
		Report: func(d analysis.Diagnostic) {
			reports++
			gotMsg, gotPos = d.Message, d.Pos
		},
	}
	NewReporter(pass, set).ReportViolation(zzViolation{code: code, msg: msg, pos: pos})
	cat := zzCat(code)
	match := func(t string) bool { return nd.Or(t == "ALL", t == code, nd.And(cat != "", t == cat)) }
	suppressed := nd.Or(nd.And(gtok != "", match(gtok)), nd.And(match(mtok), ms <= int(pos), int(pos) <= me))
	nd.Assert((reports == 0) == suppressed, "reported iff the violation's own code is not suppressed at its own position")
	nd.Assert(reports <= 1, "at most one diagnostic per violation")
	if reports == 1 {
		nd.Assert(gotPos == pos, "diagnostic at the violation's position")
		head := "error: [" + code + "] " + msg + "\n"
		nd.Assert(len(gotMsg) >= len(head) && gotMsg[:len(head)] == head, "message starts with error: [CODE] text")
		rest := gotMsg[len(head):]
		nd.Assert(!strings.Contains(rest, " | ") && !strings.Contains(rest, "^"), "no excerpt when the file is unreadable")
		if code != "ZZZ9" {
			nd.Assert(strings.Contains(rest, zzDocURL(code)), "the message links to the documentation page of the code's category, with or without excerpt")
		}
	}
}
