package reporting

import (
	"strings"

	"github.com/a14e/gogreement/src/zzverif/nd"
	"golang.org/x/tools/go/analysis"
)

// black box (NewReporter / ReportViolation only), in a file of its own so that it survives refactorings of the reporter's internals
// C19-K2c: a file that ends INSIDE the reported line, before the reported column, is shorter than expected as well (a
// truncated read, a file rewritten between parsing and reporting): no excerpt — in particular no caret parked at the end
// of the partial line. The position comes from the full text, ReadFile delivers a prefix of it (every cut that loses the
// reported column, pinned).
func ZZC19ShortRead() {
	content := "package p\n\nfunc f(t *T) { if t != nil { t.X = 1 } }\nlast\n"
	start3 := strings.Index(content, "func f")
	col := strings.Index(content, "t.X") - start3 + 1
	cut := nd.Int("cut")
	nd.Assume(0 <= cut)
	nd.Assume(cut < start3+col-1) // the byte before the reported column is missing: column > len(line)+1
	cut = nd.Pin(cut)
	fset, pos := nd.FsetFor("f.go", content, 3, col)
	out := ""
	pass := &analysis.Pass{
		Fset:     fset,
		ReadFile: func(name string) ([]byte, error) { return []byte(content[:cut]), nil },
		Report:   func(d analysis.Diagnostic) { out = d.Message },
	}
	NewReporter(pass, nil).ReportViolation(zzViolation{code: "IMM01", msg: "m", pos: pos})
	nd.Observe("got", out)
	nd.Assert(strings.HasPrefix(out, "error: [IMM01] m\n"), "header present")
	nd.Assert(!strings.Contains(out, " | ") && !strings.Contains(out, "^"), "a file that ends before the reported column: no excerpt, no caret")
	nd.Assert(strings.Contains(out, zzDocURL("IMM01")), "help link present")
}
