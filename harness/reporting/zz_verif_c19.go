package reporting

import "github.com/a14e/gogreement/src/zzverif/nd"

// C19-K1: truncation and caret arithmetic, for every line length (no static bound on the line).
func ZZC19K1() {
	s := nd.Buf("line")
	col := nd.Int("col")
	nd.Assume(1 <= col)
	nd.Assume(col <= len(s)+1)
	t := truncateString(s, MaxLineLength, col)
	d := calculateDisplayColumn(s, col, MaxLineLength)
	nd.Observe("t", t)
	nd.Observe("d", d)
	// property: "the length of an excerpt line is bounded by the display limit plus its ellipsis markers"
	nd.Assert(len(t) <= MaxLineLength+6, "excerpt length bounded by limit + ellipses")
	if len(s) <= MaxLineLength {
		nd.Assert(nd.StrEq(t, s), "short line shown unchanged")
		nd.Assert(d == col, "short line: caret column unchanged")
		return
	}
	nd.Assert(1 <= d, "display column >= 1")
	nd.Assert(d <= len(t)+1, "display column within excerpt")
	if col <= len(s) {
		nd.Known("C19/head-boundary", col == MaxLineLength-2)
		// property: "the caret stands under the character at the reported column ... after truncation"
		nd.Assert(d <= len(t), "caret inside excerpt")
		nd.Assert(t[d-1] == s[col-1], "caret under the reported character")
	}
}
