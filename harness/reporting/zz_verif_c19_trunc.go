package reporting

import (
	"github.com/a14e/gogreement/src/zzverif/nd"
	"strings"
)

// white box: truncateString / calculateDisplayColumn
// C19-K1: truncation and caret arithmetic, for every line length (no static bound on the line).
func ZZC19K1() {
	s := nd.Buf("line")
	col := nd.Int("col")
	nd.Assume(1 <= col)
	nd.Assume(col <= len(s)+1)
	t := truncateString(s, MaxLineLength, col)
	d := calculateDisplayColumn(s, col, MaxLineLength)
	nd.Observe("t", t)
	nd.Observe("d", d)
	// property: "the length of an excerpt line is bounded by the display limit plus its ellipsis markers"
	nd.Assert(len(t) <= MaxLineLength+6, "excerpt length bounded by limit + ellipses")
	if len(s) <= MaxLineLength {
		nd.Assert(nd.StrEq(t, s), "short line shown unchanged")
		nd.Assert(d == col, "short line: caret column unchanged")
		return
	}
	nd.Assert(1 <= d, "display column >= 1")
	nd.Assert(d <= len(t)+1, "display column within excerpt")
	if col <= len(s) {
		nd.Known("C19/head-boundary", col == MaxLineLength-2)
		// property: "the caret stands under the character at the reported column ... after truncation"
		nd.Assert(d <= len(t), "caret inside excerpt")
		nd.Assert(t[d-1] == s[col-1], "caret under the reported character")
	} else {
		// column len+1 (the end of the line): like on a short line, the caret stands one past the last shown character
		nd.Assert(d == len(t)+1, "column one past the end of the line: caret one past the end of the excerpt")
	}
}

// C19-K8: truncation never cuts a multi-byte character. A 308-byte line of 150 two-byte characters followed by ASCII text;
// the column is the byte column of any character: the shown piece starts and ends at character boundaries, the caret
// column still addresses the reported character, and the length bound holds.
func ZZC19Utf8Long() {
	line := strings.Repeat("À", 100) + strings.Repeat("é", 50) + "x.f = 12" // C3 80 and C3 A9
	col := nd.Int("col")
	nd.Assume(1 <= col)
	nd.Assume(col <= len(line))
	b0 := line[col-1]
	nd.Assume(b0 < 0x80 || b0 >= 0xC0) // a character starts at the column
	t := truncateString(line, MaxLineLength, col)
	d := calculateDisplayColumn(line, col, MaxLineLength)
	nd.Assert(len(t) <= MaxLineLength+6, "excerpt length bounded by limit + ellipses")
	nd.Assert(nd.And(1 <= d, d <= len(t)), "caret inside excerpt")
	nd.Assert(t[d-1] == line[col-1], "caret column addresses the reported character")
	first, last := 0, len(t)-1
	if strings.HasPrefix(t, "...") {
		first = 3
	}
	if strings.HasSuffix(t, "...") {
		last = len(t) - 4
	}
	nd.Assert(t[first] < 0x80 || t[first] >= 0xC0, "the shown piece does not begin inside a character")
	nd.Assert(t[last] < 0xC0, "the shown piece does not end inside a character")
}

// C19-K8b: the length bound does not depend on the line being valid UTF-8 (a //line directive may point into any file):
// a 400-byte line made of continuation bytes only, any column.
func ZZC19InvalidUtf8Long() {
	line := strings.Repeat("\x85", 400)
	col := nd.Int("col")
	nd.Assume(1 <= col)
	nd.Assume(col <= len(line)+1)
	t := truncateString(line, MaxLineLength, col)
	d := calculateDisplayColumn(line, col, MaxLineLength)
	nd.Assert(len(t) <= MaxLineLength+6, "excerpt length bounded by limit + ellipses, whatever the bytes are")
	nd.Assert(nd.And(1 <= d, d <= len(t)+1), "display column within excerpt")
}
