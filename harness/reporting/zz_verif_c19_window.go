package reporting

import (
	"github.com/a14e/gogreement/src/zzverif/nd"
	"golang.org/x/tools/go/analysis"
)

// white box: readSourceLines / lineCache
// C19-K2: the line window. Cache entry = arbitrary file of 0..5 lines (contents are opaque atoms: the code only copies
// them), arbitrary diagnostic line >= 1: result = lines max(1,L-2)..min(n,L+1) with their numbers, nothing if the file
// does not reach line L; never a failure.
func ZZC19K2() {
	n := nd.Int("n_lines")
	nd.Assume(0 <= n)
	nd.Assume(n <= 5)
	lines := []string{}
	names := []string{"line1", "line2", "line3", "line4", "line5"}
	for i := 0; i < 5; i++ {
		if i < n {
			lines = append(lines, nd.Atom(names[i]))
		}
	}
	r := &Reporter{lineCache: map[string][]string{"f.go": lines}}
	L := nd.Int("diag_line")
	nd.Assume(1 <= L)
	nd.Assume(L <= 1<<31-1)
	res := r.readSourceLines("f.go", L, 2, 1)
	lo := nd.IteInt(L-2 >= 1, L-2, 1)
	hi := nd.IteInt(L+1 <= n, L+1, n)
	// a file that does not reach the diagnostic's line is "shorter than expected": no excerpt at all (context lines
	// without the line they are the context of are not an excerpt of the diagnostic)
	wantLen := nd.IteInt(L <= n, hi-lo+1, 0)
	nd.Observe("count", len(res.content))
	nd.Assert(len(res.content) == wantLen, "window has the documented number of lines")
	nd.Assert(len(res.lineNumbers) == len(res.content), "one number per line")
	for k := range res.content {
		nd.Assert(res.lineNumbers[k] == lo+k, "lines are numbered consecutively from max(1, L-2)")
		idx := res.lineNumbers[k] - 1
		nd.Assert(nd.And(0 <= idx, idx < len(lines)), "line number inside the file")
		if 0 <= idx && idx < len(lines) {
			nd.Assert(res.content[k] == lines[idx], "excerpt line k shows source line number k")
		}
	}
}

// C19-K2b: an unreadable file degrades to no excerpt.
func ZZC19K2Unreadable() {
	pass := &analysis.Pass{ReadFile: func(name string) ([]byte, error) { return nil, errUnreadable }}
	r := NewReporter(pass, nil)
	L := nd.Int("diag_line")
	res := r.readSourceLines("missing.go", L, 2, 1)
	nd.Assert(len(res.content) == 0 && len(res.lineNumbers) == 0, "unreadable file: no excerpt, no failure")
}
