package reporting

import (
	"fmt"
	"go/token"
	"strings"
)

// shared by the reporting harnesses; names nothing of the package under test, so that it always compiles
var errUnreadable = fmt.Errorf("unreadable")

type zzViolation struct {
	code, msg string
	pos       token.Pos
}

func (v zzViolation) GetCode() string    { return v.code }
func (v zzViolation) GetPos() token.Pos  { return v.pos }
func (v zzViolation) GetMessage() string { return v.msg }

// frozen documentation table
func zzDocURL(code string) string {
	base := "https://a14e.github.io/gogreement/"
	switch {
	case strings.HasPrefix(code, "IMM"):
		return base + "02_02_immutable.html"
	case strings.HasPrefix(code, "CTOR"):
		return base + "02_03_constructor.html"
	case strings.HasPrefix(code, "TONL"):
		return base + "02_04_testonly.html"
	case strings.HasPrefix(code, "PKGO"):
		return base + "02_05_packageonly.html"
	case strings.HasPrefix(code, "IMPL"):
		return base + "02_01_implements.html"
	}
	return base
}
