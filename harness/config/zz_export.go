package config

// exported wrappers for cross-package harnesses (overlay only)
func ZZParseStringList(s string, upper bool) []string { return parseStringList(s, upper) }
func ZZParseBool(s string) bool                       { return parseBool(s) }
