package config

import (
	"strings"

	"github.com/a14e/gogreement/src/zzverif/nd"
)

// ---- frozen reference (from the property statement) ----

// list semantics: split on commas, trim, drop empty items, optionally upper-case
func zzRefList(s string, upper bool) []string {
	out := []string{}
	if s == "" {
		return out
	}
	for _, part := range strings.Split(s, ",") {
		t := strings.TrimSpace(part)
		if t == "" {
			continue
		}
		if upper {
			t = strings.ToUpper(t)
		}
		out = append(out, t)
	}
	return out
}

// boolean semantics: true exactly for true/1/yes/on in any case with surrounding blanks, and Go's other
// ParseBool spellings of true (t, T, TRUE, True - all equal to "t"/"true" after lower-casing)
func zzRefBool(s string) bool {
	l := strings.ToLower(strings.TrimSpace(s))
	return nd.Or(l == "1", l == "t", l == "true", l == "yes", l == "on")
}

func zzSameList(got, want []string, what string) {
	nd.Assert(len(got) == len(want), what+": same number of items")
	for i := range got {
		if i < len(want) {
			nd.Assert(got[i] == want[i], what+": same item")
		}
	}
}

type zzScenario struct {
	scan, paths, checks bool // which option's inputs (flag and environment) are arbitrary; the others are absent
	maxBytes, maxCommas int
	enum                bool // all options present-or-absent arbitrarily, values from small fixed alphabets (cross-talk)
}

// zzC18 resolves all three options from the environment and the flags of the scenario and compares every field
// of the result with the reference resolution.
func zzC18(sc zzScenario) {
	nd.Assume(!nd.Bool("env_GOGREEMENT_ENV_ONLY_set")) // the property fixes GOGREEMENT_ENV_ONLY unset

	// declare the environment inputs first so that the stubbed os.LookupEnv sees these (name-keyed) inputs
	envScanSet := nd.Bool("env_GOGREEMENT_SCAN_TESTS_set")
	envPathsSet := nd.Bool("env_GOGREEMENT_EXCLUDE_PATHS_set")
	envChecksSet := nd.Bool("env_GOGREEMENT_EXCLUDE_CHECKS_set")
	scanGiven := nd.Bool("flag_scan_given")
	pathsGiven := nd.Bool("flag_paths_given")
	checksGiven := nd.Bool("flag_checks_given")
	scanVal := nd.Enum("flag_scan_val", "true", "false", "1", "0", "t", "f", "T", "F", "TRUE", "FALSE", "True", "False")
	var envScan, envPaths, envChecks, pathsVal, checksVal string
	if sc.enum {
		// fixed, pairwise different values: what is explored is the 2^6 presence grid (priority, no cross-talk)
		envScan = nd.Enum("env_GOGREEMENT_SCAN_TESTS", " On ")
		envPaths = nd.Enum("env_GOGREEMENT_EXCLUDE_PATHS", "gen, mocks ,")
		envChecks = nd.Enum("env_GOGREEMENT_EXCLUDE_CHECKS", "Ctor , all")
		pathsVal = nd.Enum("flag_paths_val", " a,,b ")
		checksVal = nd.Enum("flag_checks_val", "pkgo02,IMPL")
	} else {
		envScan = nd.Str("env_GOGREEMENT_SCAN_TESTS", sc.maxBytes)
		envPaths = nd.Str("env_GOGREEMENT_EXCLUDE_PATHS", sc.maxBytes)
		envChecks = nd.Str("env_GOGREEMENT_EXCLUDE_CHECKS", sc.maxBytes)
		pathsVal = nd.Str("flag_paths_val", sc.maxBytes)
		checksVal = nd.Str("flag_checks_val", sc.maxBytes)
		if !sc.scan {
			nd.Assume(!envScanSet)
			nd.Assume(!scanGiven)
		}
		if !sc.paths {
			nd.Assume(!envPathsSet)
			nd.Assume(!pathsGiven)
		}
		if !sc.checks {
			nd.Assume(!envChecksSet)
			nd.Assume(!checksGiven)
		}
		// stated bound: at most maxCommas commas per list value (strings.Split is unrolled to maxCommas+1 parts)
		nd.Assume(nd.CountByte(envPaths, ',') <= sc.maxCommas)
		nd.Assume(nd.CountByte(envChecks, ',') <= sc.maxCommas)
		nd.Assume(nd.CountByte(pathsVal, ',') <= sc.maxCommas)
		nd.Assume(nd.CountByte(checksVal, ',') <= sc.maxCommas)
	}

	fs := CreateFlagSet() // reads the environment (stubbed: arbitrary (set?, value) per variable)

	if scanGiven {
		err := fs.Set("scan-tests", scanVal)
		nd.Assert(err == nil, "accepted boolean flag spelling sets without error")
	}
	if pathsGiven {
		fs.Set("exclude-paths", pathsVal)
	}
	if checksGiven {
		fs.Set("exclude-checks", checksVal)
	}

	cfg := ParseFlagsFromFlagSet(fs)

	// ---- reference resolution ----
	wantScan := false
	if scanGiven {
		wantScan = nd.Or(scanVal == "true", scanVal == "1", scanVal == "t", scanVal == "T", scanVal == "TRUE", scanVal == "True")
	} else if envScanSet {
		wantScan = zzRefBool(envScan) // "" is not a true spelling: default
	}
	nd.Observe("scan", cfg.ScanTests)
	nd.Assert(cfg.ScanTests == wantScan, "scan-tests = flag, else environment, else false")

	var wantPaths []string
	if pathsGiven {
		wantPaths = zzRefList(pathsVal, false)
	} else if envPathsSet {
		wantPaths = zzRefList(envPaths, false)
	} else {
		wantPaths = []string{"testdata"}
	}
	nd.Observe("paths", cfg.ExcludePaths)
	zzSameList(cfg.ExcludePaths, wantPaths, "exclude-paths")

	var wantChecks []string
	if checksGiven {
		wantChecks = zzRefList(checksVal, true)
	} else if envChecksSet {
		wantChecks = zzRefList(envChecks, true)
	} else {
		wantChecks = []string{}
	}
	nd.Observe("checks", cfg.ExcludeChecks)
	zzSameList(cfg.ExcludeChecks, wantChecks, "exclude-checks")
}

func ZZC18Scan() { zzC18(zzScenario{scan: true, maxBytes: 12}) }
func ZZC18Paths() { zzC18(zzScenario{paths: true, maxBytes: 8, maxCommas: 2}) }
func ZZC18Checks() { zzC18(zzScenario{checks: true, maxBytes: 8, maxCommas: 2}) }
func ZZC18Cross() { zzC18(zzScenario{enum: true}) }
func ZZC18ScanLong() { zzC18(zzScenario{scan: true, maxBytes: 24}) }
func ZZC18PathsLong() { zzC18(zzScenario{paths: true, maxBytes: 10, maxCommas: 2}) }
func ZZC18ChecksLong() { zzC18(zzScenario{checks: true, maxBytes: 10, maxCommas: 2}) }
