package config

import (
	"go/ast"

	"golang.org/x/tools/go/analysis"

	"github.com/a14e/gogreement/src/zzverif/nd"
)

// ZZC14Skip: the file filter for ARBITRARY file names and exclude-path entries: a file is skipped iff its name contains
// some exclude-paths entry, or scan-tests is off and the name ends in _test.go.
func ZZC14Skip() {
	name := nd.Str("filename", 14)
	fset, pos := nd.FsetFor(name, "package d\n", 1, 1)
	file := &ast.File{Package: pos}
	scan := nd.Bool("scan_tests")
	p1 := nd.Str("path1", 4)
	p2 := nd.Str("path2", 4)
	n := nd.Int("n_paths")
	nd.Assume(0 <= n)
	nd.Assume(n <= 2)
	// configuration parsing never yields empty entries (C18: empty items are dropped)
	nd.Assume(len(p1) >= 1)
	nd.Assume(len(p2) >= 1)
	paths := []string{}
	want := nd.And(nd.Not(scan), nd.HasSuffix(name, "_test.go"))
	if n >= 1 {
		paths = append(paths, p1)
		want = nd.Or(want, nd.Contains(name, p1))
	}
	if n >= 2 {
		paths = append(paths, p2)
		want = nd.Or(want, nd.Contains(name, p2))
	}
	cfg := New(scan, paths, nil)
	got := cfg.ShouldSkipFile(&analysis.Pass{Fset: fset}, file)
	nd.Observe("skip", got)
	nd.Assert(got == want, "skipped iff the name contains an exclude-paths entry or (scan-tests off and name ends in _test.go)")
}
