package packageonly

import (
	"fmt"
	"go/token"

	"github.com/a14e/gogreement/src/util"
	"github.com/a14e/gogreement/src/zzverif/nd"
)

type zzMarker struct {
	codes      []string
	start, end token.Pos
}

func (a *zzMarker) GetCodes() []string     { return a.codes }
func (a *zzMarker) GetStartPos() token.Pos { return a.start }
func (a *zzMarker) GetEndPos() token.Pos   { return a.end }

// ZZC04Kernel: the allow-list decision for ARBITRARY names. Up to three @packageonly lines (type / function / method,
// declared in one of two packages, item and receiver names from a two-letter alphabet (the type name is concatenated into the dedup key), allow-list entries and the user's path/name arbitrary, 1-2 arbitrary allow-list entries each plus the
// declaring package) are indexed; one reference (kind, declaring package, names, position) from a package with arbitrary
// path and name is checked: a violation is returned iff the item is annotated, the user is another package, neither its
// path nor its name is in the UNION of the item's lists, the code is not suppressed at the position (and, for types, the
// type has not been reported in this file yet).
func ZZC04Kernel2() { zzC04Kernel(2) }
func ZZC04Kernel3() { zzC04Kernel(3) }

func zzC04Kernel(maxLines int) {
	idx := &util.AttachmentsMap{}
	pkgs := []string{"zzmod/d", "zzmod/e"}
	P := nd.Atom("user_path")
	N := nd.Atom("user_name")
	qKind := nd.Int("q_kind") // 0 type, 1 function, 2 method
	nd.Assume(0 <= qKind)
	nd.Assume(qKind <= 2)
	qKind = nd.Pin(qKind)
	qPkg := nd.Enum("q_pkg", pkgs...)
	qName := nd.Enum("q_name", "A", "Bb")
	qRecv := nd.Enum("q_recv", "R", "Ss")
	annotated, allowed := false, false
	n := nd.Int("n_lines")
	nd.Assume(0 <= n)
	nd.Assume(n <= maxLines)
	for i := 0; i < 3; i++ {
		if i >= n {
			break
		}
		kind := nd.Int(fmt.Sprintf("l%d_kind", i))
		nd.Assume(0 <= kind)
		nd.Assume(kind <= 2)
		kind = nd.Pin(kind)
		pkg := nd.Enum(fmt.Sprintf("l%d_pkg", i), pkgs...)
		name := nd.Enum(fmt.Sprintf("l%d_name", i), "A", "Bb")
		recv := nd.Enum(fmt.Sprintf("l%d_recv", i), "R", "Ss")
		a1 := nd.Atom(fmt.Sprintf("l%d_allow1", i))
		a2 := nd.Atom(fmt.Sprintf("l%d_allow2", i))
		two := nd.Bool(fmt.Sprintf("l%d_two", i))
		list := []string{pkg, a1} // the declaring package is always in the list
		if two {
			list = append(list, a2)
		}
		for _, a := range list {
			switch kind {
			case 0:
				idx.AddPkgTypeAttachment(pkg, name, a)
			case 1:
				idx.AddPkgFunctionAttachment(pkg, name, a)
			default:
				idx.AddPkgTypeMethodAttachment(pkg, recv, name, a)
			}
		}
		same := nd.And(kind == qKind, pkg == qPkg, name == qName, nd.Or(kind != 2, recv == qRecv))
		// the implicit entry for the declaring package is its PATH: it never admits a foreign package by NAME
		// ("a bare @packageonly allows only D")
		inList := nd.Or(a1 == P, a1 == N, pkg == P, nd.And(two, nd.Or(a2 == P, a2 == N)))
		annotated = nd.Or(annotated, same)
		allowed = nd.Or(allowed, nd.And(same, inList))
	}
	// one scoped marker with an arbitrary token
	set := &util.IgnoreSet{}
	mtok := nd.Enum("marker_token", "ALL", "PKGO", "PKGO01", "PKGO02", "PKGO03", "TONL")
	ms, me := nd.Int("marker_start"), nd.Int("marker_end")
	nd.Assume(1 <= ms)
	nd.Assume(1 <= me)
	nd.Assume(ms <= 1<<31-1)
	nd.Assume(me <= 1<<31-1)
	set.Add(&zzMarker{codes: []string{mtok}, start: token.Pos(ms), end: token.Pos(me)})
	pos := nd.Int("q_pos")
	nd.Assume(1 <= pos)
	nd.Assume(pos <= 1<<31-1)
	already := nd.Bool("type_already_reported")
	reported := map[string]bool{}
	if already {
		reported[qPkg+"."+qName] = true
	}
	ctx := &packageOnlyContext{packageOnlyIndex: idx, currentPkgPath: P, currentPkgName: N, ignoreSet: set, reportedTypes: &reported}
	var v *PackageOnlyViolation
	code := ""
	switch qKind {
	case 0:
		v = findTypeViolation(ctx, qPkg, qName, token.Pos(pos))
		code = "PKGO01"
	case 1:
		v = findFunctionViolation(ctx, qPkg, qName, token.Pos(pos))
		code = "PKGO02"
	default:
		v = findMethodViolation(ctx, qPkg, qRecv, qName, token.Pos(pos))
		code = "PKGO03"
	}
	inRange := nd.And(ms <= pos, pos <= me)
	suppressed := nd.And(inRange, nd.Or(mtok == "ALL", mtok == "PKGO", mtok == code))
	// known residue of the repair 5fb73c4: a WRITTEN entry that equals the declaring package's own (one-element) path
	// cannot be told from the implicit one, so a foreign package of that NAME is not admitted by it
	nd.Known("C04/own-path-written-as-name-entry", N == qPkg)
	want := nd.And(annotated, nd.Not(qPkg == P), nd.Not(allowed), nd.Not(suppressed), nd.Or(qKind != 0, nd.Not(already)))
	nd.Assert((v != nil) == want, "violation iff annotated, foreign, neither path nor name in the union of lists, not suppressed, not yet reported")
	if v != nil {
		nd.Assert(v.Code == code && v.Pos == token.Pos(pos) && v.ItemName == qName && v.ItemPkgPath == qPkg, "violation carries the code of its kind, the position and the item")
	}
}
