package util

import (
	"fmt"
	"go/token"

	"github.com/a14e/gogreement/src/zzverif/nd"
)

// frozen reference: category of each documented code (written from the property statement / book, not from codes.go);
// branch-free so that the oracle does not fork
func zzCategory(code string) string {
	r := ""
	r = nd.IteStr(nd.Or(code == "IMM01", code == "IMM02", code == "IMM03", code == "IMM04"), "IMM", r)
	r = nd.IteStr(nd.Or(code == "CTOR01", code == "CTOR02", code == "CTOR03"), "CTOR", r)
	r = nd.IteStr(nd.Or(code == "TONL01", code == "TONL02", code == "TONL03"), "TONL", r)
	r = nd.IteStr(nd.Or(code == "PKGO01", code == "PKGO02", code == "PKGO03"), "PKGO", r)
	r = nd.IteStr(nd.Or(code == "IMPL01", code == "IMPL02", code == "IMPL03"), "IMPL", r)
	return r // unknown codes and category names have no category other than themselves
}

// token t suppresses a diagnostic with code c iff t is ALL, c's category, or c itself
func zzTokenMatches(t, c, cat string) bool {
	return nd.Or(t == "ALL", t == c, nd.And(cat != "", t == cat))
}

type zzAnn struct {
	codes      []string
	start, end token.Pos
}

func (a *zzAnn) GetCodes() []string     { return a.codes }
func (a *zzAnn) GetStartPos() token.Pos { return a.start }
func (a *zzAnn) GetEndPos() token.Pos   { return a.end }

const zzMaxPos = 1<<31 - 1

// zzC16History: K add-operations (scoped or global, 1..2 codes each, arbitrary code strings, arbitrary ranges in
// any order) followed by one query; the decision must equal the list-scan reference.
// code strings: opaque atoms (any string; the code may only compare them) or the property's finite alphabet
var zzAlphabet = []string{"ALL", "IMM", "IMM01", "IMM02", "CTOR01", "CTOR", "CTOR02", "XYZ"}

func zzCode(name string, finite bool) string {
	if finite {
		return nd.Enum(name, zzAlphabet...)
	}
	return nd.Atom(name)
}

func zzC16History(K int, allowTwo bool) { zzC16HistoryA(K, allowTwo, false) }

func zzC16HistoryA(K int, allowTwo bool, finite bool) {
	s := &IgnoreSet{}
	expected := false
	code := zzCode("q_code", finite)
	pos := nd.Int("q_pos")
	nd.Assume(0 <= pos)
	nd.Assume(pos <= zzMaxPos)
	cat := zzCategory(code)
	n := nd.Int("n_ops")
	nd.Assume(0 <= n)
	nd.Assume(n <= K)
	for i := 0; i < K; i++ {
		if i >= n {
			break
		}
		global := nd.Bool(fmt.Sprintf("op%d_global", i))
		two := nd.Bool(fmt.Sprintf("op%d_two", i))
		if !allowTwo {
			nd.Assume(!two)
		}
		c0 := zzCode(fmt.Sprintf("op%d_c0", i), finite)
		c1 := zzCode(fmt.Sprintf("op%d_c1", i), finite)
		start := nd.Int(fmt.Sprintf("op%d_start", i))
		end := nd.Int(fmt.Sprintf("op%d_end", i))
		// property precondition: ranges lie inside valid positions (token.NoPos = 0 is not a position)
		nd.Assume(1 <= start)
		nd.Assume(start <= zzMaxPos)
		nd.Assume(1 <= end)
		nd.Assume(end <= zzMaxPos)
		codes := []string{c0}
		if two {
			codes = append(codes, c1)
		}
		m := zzTokenMatches(c0, code, cat)
		if two {
			m = nd.Or(m, zzTokenMatches(c1, code, cat))
		}
		if global {
			s.AddModuleIgnore(codes)
			expected = nd.Or(expected, m)
		} else {
			s.Add(&zzAnn{codes: codes, start: token.Pos(start), end: token.Pos(end)})
			expected = nd.Or(expected, nd.And(m, start <= pos, pos <= end))
		}
	}
	got := s.Contains(code, token.Pos(pos))
	nd.Observe("got", got)
	nd.Assert(got == expected, "Contains == reference list scan (inclusive range, ALL>category>code)")
}

func ZZC16History2() { zzC16History(2, true) }
func ZZC16History3() { zzC16History(3, true) }
func ZZC16History3One() { zzC16History(3, false) }
func ZZC16History4One() { zzC16History(4, false) }

// the same histories over the property's finite code alphabet (concrete spellings: code that looks INTO the strings,
// e.g. prefix tests, is executed instead of being refused as with opaque atoms)
func ZZC16Alphabet3() { zzC16HistoryA(3, false, true) }
func ZZC16Alphabet2Two() { zzC16HistoryA(2, true, true) }

// zzC16Empty: an uninitialised, an empty-but-initialised and a nil collection never suppress.
func ZZC16Empty() {
	code := nd.Atom("q_code")
	pos := nd.Int("q_pos")
	var nilSet *IgnoreSet
	nd.Assert(!nilSet.Contains(code, token.Pos(pos)), "nil collection never suppresses")
	fresh := &IgnoreSet{}
	nd.Assert(!fresh.Contains(code, token.Pos(pos)), "uninitialised collection never suppresses")
	fresh.AddModuleIgnore(nil)
	nd.Assert(!fresh.Contains(code, token.Pos(pos)), "initialised empty collection never suppresses")
	nd.Assert(nilSet.Len() == 0 && nilSet.Empty(), "nil collection is empty")
}
