package annotations

import (
	"regexp"
	"strings"

	"github.com/a14e/gogreement/src/util"
	"github.com/a14e/gogreement/src/zzverif/nd"
)

// ---- frozen reference grammar (written from the property statement and book/02_annotations, not copied from the code) ----
// WS = [\t\n\f\r ]   ID = [A-Za-z_][A-Za-z0-9_]*   W = [0-9A-Za-z_]   P = [A-Za-z0-9_/.-]+
// HEAD(K) = WS* "//" WS* "@"K        REST = "" | WS+ [^\n]*       LIST(X) = X (WS* "," WS* X)* (WS* ",")?
const (
	zzWS   = `[\t\n\f\r ]`
	zzHead = `^` + zzWS + `*//` + zzWS + `*@`
	zzRest = `(?:` + zzWS + `+[^\n]*)?$`
	zzID   = `[A-Za-z_][0-9A-Za-z_]*`
	zzP    = `[0-9A-Za-z_/.\-]+`
)

var (
	zzRefImmutable   = regexp.MustCompile(zzHead + `immutable` + zzRest)
	zzRefTestonly    = regexp.MustCompile(zzHead + `testonly` + zzRest)
	zzRefMutable     = regexp.MustCompile(zzHead + `mutable` + zzRest)
	zzRefConstructor = regexp.MustCompile(zzHead + `constructor(?:` + zzWS + `+(` + zzID + `(?:` + zzWS + `*,` + zzWS + `*` + zzID + `)*(?:` + zzWS + `*,)?))?` + zzRest)
	zzRefPackageOnly = regexp.MustCompile(zzHead + `packageonly(?:` + zzWS + `+(` + zzP + `(?:` + zzWS + `*,` + zzWS + `*` + zzP + `)*(?:` + zzWS + `*,)?))?` + zzRest)
	zzRefImplements  = regexp.MustCompile(zzHead + `implements` + zzWS + `+(&)?(?:([0-9A-Za-z_]+)\.)?([0-9A-Za-z_]+)` + zzRest)
)

// reference list value: items of the captured list, trimmed, empties dropped
func zzRefItems(s string) []string {
	out := []string{}
	s = strings.TrimSpace(s)
	if s == "" {
		return out
	}
	for _, p := range strings.Split(s, ",") {
		t := strings.TrimSpace(p)
		if t != "" {
			out = append(out, t)
		}
	}
	return out
}

func zzSameStrings(got, want []string, what string) {
	nd.Assert(len(got) == len(want), what+": same number of items")
	for i := range got {
		if i < len(want) {
			nd.Assert(got[i] == want[i], what+": same item")
		}
	}
}

// the dispatch in ReadAllAnnotations only calls a parser when both pre-filters say yes; they must never hide an accepted line
func zzDispatchOK(text, kw string) bool {
	return nd.And(matcher.Contains([]byte(text)), strings.Contains(text, kw))
}

func zzText(n int) string { return nd.Str("text", n) }

func zzC15Simple(n int) {
	text := zzText(n)
	im := parseImmutableAnnotation(text, "T", 7)
	refIm := zzRefImmutable.MatchString(text)
	nd.Assert((im != nil) == refIm, "@immutable recognised iff reference grammar accepts")
	if im != nil {
		nd.Assert(im.OnType == "T" && im.OnTypePos == 7, "@immutable value")
		nd.Assert(zzDispatchOK(text, "@immutable"), "@immutable: pre-filters pass accepted lines")
	}
	to := parseTestOnlyAnnotation(text, "F", 9, TestOnlyOnMethod, "R")
	refTo := zzRefTestonly.MatchString(text)
	nd.Assert((to != nil) == refTo, "@testonly recognised iff reference grammar accepts")
	if to != nil {
		nd.Assert(to.ObjectName == "F" && to.Pos == 9 && to.Kind == TestOnlyOnMethod && to.ReceiverType == "R", "@testonly value")
		nd.Assert(zzDispatchOK(text, "@testonly"), "@testonly: pre-filters pass accepted lines")
	}
	mu := parseMutableAnnotation(text, "T", "f", 11)
	refMu := zzRefMutable.MatchString(text)
	nd.Assert((mu != nil) == refMu, "@mutable recognised iff reference grammar accepts")
	if mu != nil {
		nd.Assert(mu.OnType == "T" && mu.FieldName == "f" && mu.Pos == 11, "@mutable value")
		nd.Assert(zzDispatchOK(text, "@mutable"), "@mutable: pre-filters pass accepted lines")
	}
}

func zzC15Constructor(n int) {
	text := zzText(n)
	got := parseConstructorAnnotation(text, "T", 7)
	m := zzRefConstructor.FindStringSubmatch(text)
	var want []string
	if m != nil {
		want = zzRefItems(m[1])
	}
	nd.Assert((got != nil) == (len(want) > 0), "@constructor recognised iff reference accepts a non-empty identifier list")
	if got != nil {
		nd.Observe("names", got.ConstructorNames)
		zzSameStrings(got.ConstructorNames, want, "@constructor names")
		nd.Assert(got.OnType == "T" && got.OnTypePos == 7, "@constructor value")
		nd.Assert(zzDispatchOK(text, "@constructor"), "@constructor: pre-filters pass accepted lines")
	}
}

func zzC15PackageOnly(n int) {
	text := zzText(n)
	got := parsePackageOnlyAnnotation(text, "F", 9, TestOnlyOnFunc, "", "cur/pkg")
	m := zzRefPackageOnly.FindStringSubmatch(text)
	nd.Assert((got != nil) == (m != nil), "@packageonly recognised iff reference grammar accepts")
	if got != nil && m != nil {
		want := append([]string{"cur/pkg"}, zzRefItems(m[1])...)
		nd.Observe("allowed", got.AllowedPackages)
		zzSameStrings(got.AllowedPackages, want, "@packageonly allow-list (declaring package first)")
		nd.Assert(got.ObjectName == "F" && got.Pos == 9 && got.Kind == TestOnlyOnFunc && got.ReceiverType == "", "@packageonly value")
		nd.Assert(zzDispatchOK(text, "@packageonly"), "@packageonly: pre-filters pass accepted lines")
	}
}

func zzC15Implements(n int) {
	text := zzText(n)
	imports := &util.ImportMap{}
	got := parseImplementsAnnotation(text, "T", 7, imports, "cur/pkg")
	m := zzRefImplements.FindStringSubmatch(text)
	nd.Assert((got != nil) == (m != nil), "@implements recognised iff reference grammar accepts")
	if got != nil && m != nil {
		nd.Observe("iface", got.InterfaceName)
		nd.Observe("pkg", got.PackageName)
		nd.Assert(got.IsPointer == (m[1] == "&"), "@implements pointer flag")
		nd.Assert(got.PackageName == m[2], "@implements qualifier")
		nd.Assert(got.InterfaceName == m[3], "@implements interface name")
		nd.Assert(got.OnType == "T" && got.OnTypePos == 7, "@implements value")
		nd.Assert(zzDispatchOK(text, "@implements"), "@implements: pre-filters pass accepted lines")
		if got.PackageName == "" {
			nd.Assert(got.PackageFullPath == "cur/pkg" && !got.PackageNotFound, "@implements without qualifier resolves to the current package")
		} else {
			nd.Assert(got.PackageNotFound && got.PackageFullPath == "", "@implements qualifier without imports is not found")
		}
	}
}

func ZZC15Simple20()      { zzC15Simple(20) }
func ZZC15Constructor24() { zzC15Constructor(24) }
func ZZC15PackageOnly24() { zzC15PackageOnly(24) }
func ZZC15Implements24()  { zzC15Implements(24) }
func ZZC15Simple28()      { zzC15Simple(28) }
func ZZC15Constructor30() { zzC15Constructor(30) }
func ZZC15Constructor27() { zzC15Constructor(27) }
func ZZC15PackageOnly30() { zzC15PackageOnly(30) }
func ZZC15Implements30()  { zzC15Implements(30) }

// ZZC15Regexes exposes the regex sources of the tree under test (for the unbounded language-equivalence queries).
func ZZC15Regexes() {
	nd.Observe("implements", implementsRegex.String())
	nd.Observe("constructor", constructorRegex.String())
	nd.Observe("immutable", immutableRegex.String())
	nd.Observe("testonly", testonlyRegex.String())
	nd.Observe("mutable", mutableRegex.String())
	nd.Observe("packageonly", packageOnlyRegex.String())
	nd.Observe("ref_implements", zzRefImplements.String())
	nd.Observe("ref_constructor", zzRefConstructor.String())
	nd.Observe("ref_immutable", zzRefImmutable.String())
	nd.Observe("ref_testonly", zzRefTestonly.String())
	nd.Observe("ref_mutable", zzRefMutable.String())
	nd.Observe("ref_packageonly", zzRefPackageOnly.String())
	nd.Assert(true, "regex sources observed")
}

// ZZC15Lang is only replayed natively: it confirms a witness of the unbounded language-equivalence queries
// (source regex vs frozen reference, all lengths) against the real regexp package.
func ZZC15Lang() {
	text := nd.Buf("text")
	nd.Assert(implementsRegex.MatchString(text) == zzRefImplements.MatchString(text), "language(implements) == reference, all lengths")
	nd.Assert(constructorRegex.MatchString(text) == zzRefConstructor.MatchString(text), "language(constructor) == reference, all lengths")
	nd.Assert(immutableRegex.MatchString(text) == zzRefImmutable.MatchString(text), "language(immutable) == reference, all lengths")
	nd.Assert(testonlyRegex.MatchString(text) == zzRefTestonly.MatchString(text), "language(testonly) == reference, all lengths")
	nd.Assert(mutableRegex.MatchString(text) == zzRefMutable.MatchString(text), "language(mutable) == reference, all lengths")
	nd.Assert(packageOnlyRegex.MatchString(text) == zzRefPackageOnly.MatchString(text), "language(packageonly) == reference, all lengths")
}

var zzPrefix = func(kw string) *regexp.Regexp {
	return regexp.MustCompile(`^[\t\n\f\r ]*//[\t\n\f\r ]*@` + kw + `([\t\n\f\r ](?s:.*))?$`)
}

// ZZC09Prefix: native confirmation of a witness of the unbounded inclusion queries (C09a).
func ZZC09Prefix() {
	text := nd.Buf("text")
	nd.Assert(!implementsRegex.MatchString(text) || zzPrefix("implements").MatchString(text), "accepted text has the anchored lowercase @implements prefix form")
	nd.Assert(!constructorRegex.MatchString(text) || zzPrefix("constructor").MatchString(text), "accepted text has the anchored lowercase @constructor prefix form")
	nd.Assert(!immutableRegex.MatchString(text) || zzPrefix("immutable").MatchString(text), "accepted text has the anchored lowercase @immutable prefix form")
	nd.Assert(!testonlyRegex.MatchString(text) || zzPrefix("testonly").MatchString(text), "accepted text has the anchored lowercase @testonly prefix form")
	nd.Assert(!mutableRegex.MatchString(text) || zzPrefix("mutable").MatchString(text), "accepted text has the anchored lowercase @mutable prefix form")
	nd.Assert(!packageOnlyRegex.MatchString(text) || zzPrefix("packageonly").MatchString(text), "accepted text has the anchored lowercase @packageonly prefix form")
}
