#!/usr/bin/env python3
# usage: tools/seedstore.py <wt-id> <n> <seed-id> <round> <caught_by,comma> <caught_before,comma|-> <strengthening text>
import sys, os, shutil, json, glob
wt, n, sid, rnd, caught, before, strength = sys.argv[1:8]
src = f'/tmp/wt-{wt}/SEED'
dst = f'/verif/seeded/{sid}'
os.makedirs(dst + '/demo', exist_ok=True)
shutil.copy(f'{src}/seed{n}.diff', dst + '/patch.diff')
for f in glob.glob(f'{src}/demo{n}/*'):
    b = os.path.basename(f)
    if os.path.isdir(f):
        continue
    if b.endswith('.go'):
        b += '.txt'
    shutil.copy(f, dst + '/demo/' + b)
notes = ''
if os.path.exists(f'{src}/notes{n}.md'):
    notes = open(f'{src}/notes{n}.md').read()
prop = sid.split('-')[0].rstrip('bcde')
meta = {
    "id": sid, "property": prop, "round": int(rnd),
    "origin": "independent sub-agent given only the property text and a scratch worktree of /repo (nothing from /verif)",
    "needs_to_manifest": notes,
    "confirmed_by_me": ["patch applies (git apply)", "go build ./... ok", "full pinned suite passes with the patch",
                        "demonstration passes without and fails with the patch (tools/seedverify.sh)"],
    "checks_run": f"tools/seedverify.sh {wt} {n} <checks>",
    "caught_by": [c for c in caught.split(',') if c and c != '-'],
    "caught_before_strengthening": [c for c in before.split(',') if c and c != '-'],
    "strengthening": strength,
}
json.dump(meta, open(dst + '/meta.json', 'w'), indent=1)
print('stored', dst)
