#!/usr/bin/env python3
"""Regenerates MANIFEST.json from tools/manifest_table.json (claimed checks) and properties.jsonl."""
import json, os
here = os.path.dirname(os.path.abspath(__file__))
root = os.path.dirname(here)
tab = json.load(open(os.path.join(here, "manifest_table.json")))
ids = [json.loads(l)["id"] for l in open(os.path.join(root, "properties.jsonl"))]
checks = []
na = []
for pid in ids:
    e = tab["claimed"].get(pid)
    if e is None:
        na.append({"property_id": pid, "reason": tab["not_applicable"].get(pid, "no solver-based check registered yet")})
        continue
    checks.append({
        "property_id": pid,
        "quick_cmd": "./check %s quick" % pid,
        "thorough_cmd": "./check %s thorough" % pid,
        "evidence_file": "/verif/evidence/%s.json" % pid,
        "replay_cmd_template": "sh {path}/run.sh",
        "engine": "gosym",
        "level_claimed": {"category": "model_checking", "text": e["text"], "design_ref": e.get("design_ref", "DESIGN.md §5")},
        "level_note": e["note"],
        "technique": e.get("technique", "bounded symbolic execution of go/ssa + SMT (z3 5.1.0, cvc5 cross-check), counterexamples replayed natively"),
    })
m = {
    "version": 1,
    "setup_cmd": "cd /verif/engine && GOFLAGS=-mod=mod GOPROXY=off go build -o ../bin/gosym ./cmd/gosym",
    "hooks": {"guard": "verif", "enable": "no source hooks: harnesses are injected with go/packages Overlay (analysis) and `go test -overlay` (native replay); nothing in /repo is built with a tag", "baseline_off_cmd": "cd /repo && GOFLAGS=-mod=mod GOPROXY=off go test -vet=off -count=1 ./...", "source_commits": [], "add_only": True},
    "engines": [{"name": "gosym", "path": "/verif/engine", "serves_properties": [c["property_id"] for c in checks], "kind_free_text": "symbolic interpreter for go/ssa (x/tools v0.38.0) emitting SMT-LIB2 (Int + Array Int Int) to a long-lived z3 5.1.0 process; prefix-replay DFS over path conditions; native replay of every model via go test -overlay"}],
    "checks": checks,
    "notes": tab.get("notes", ""),
    "not_applicable": na,
}
json.dump(m, open(os.path.join(root, "MANIFEST.json"), "w"), indent=1)
print("claimed", len(checks), "not_applicable", len(na))
