#!/bin/sh
# full regression: every stored seed through tools/seedrecheck.sh with the checks listed in its meta.json (about 1.5 h); do not use /tmp/wt-port meanwhile
cd /verif
for d in seeded/*/; do id=$(basename $d); checks=$(python3 -c "import json;print(' '.join(json.load(open('$d/meta.json'))['caught_by']))"); echo "## $id ($checks)"; tools/seedrecheck.sh $id - $checks 2>&1 | grep -E "VIOLATION|exit=|DOES NOT|^ok|^FAIL|--- FAIL|NO DEMO" | cut -c1-160 | head -8; done
