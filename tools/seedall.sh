#!/bin/sh
# full regression: every stored seed through tools/seedrecheck.sh with the checks listed in its meta.json (about 2.5 h on one
# shard). usage: tools/seedall.sh [shard-index shard-count]  — with shards, each uses its own scratch worktree /tmp/wt-shard<i>
# (removed at the end); without, /tmp/wt-port (do not use it meanwhile).
cd /verif
i=${1:-0}; n=${2:-1}
[ "$n" -gt 1 ] && { WT=/tmp/wt-shard$i; export WT; }
k=0
for d in seeded/*/; do
  k=$((k+1)); [ $((k % n)) -eq "$i" ] || continue
  id=$(basename $d); checks=$(python3 -c "import json;print(' '.join(json.load(open('$d/meta.json'))['caught_by']))")
  echo "## $id ($checks)"
  tools/seedrecheck.sh $id - $checks 2>&1 | grep -E "VIOLATION|exit=|DOES NOT|^ok|^FAIL|--- FAIL|NO DEMO" | cut -c1-160 | head -8
done
[ "$n" -gt 1 ] && git -C /repo worktree remove --force $WT
