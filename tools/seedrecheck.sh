#!/bin/sh
# usage: tools/seedrecheck.sh <seed-id> <patch-file|-> <check-id>...  — re-verifies a STORED seed (/verif/seeded/<id>) against /repo's
# current HEAD in the scratch worktree /tmp/wt-port: patch applies, build + suite pass, demo passes without / fails with it, checks catch it.
sid="$1"; patch="$2"; shift 2
[ "$patch" = "-" ] && patch=/verif/seeded/$sid/patch.diff
wt=${WT:-/tmp/wt-port}   # scratch worktree (WT=... for parallel shards)
export GOFLAGS=-mod=mod GOPROXY=off
[ -d $wt ] || git -C /repo worktree add --detach $wt HEAD >/dev/null 2>&1
cd $wt || exit 9
git checkout -q -- . ; git clean -fdq src cmd; git checkout -q --detach $(git -C /repo rev-parse HEAD) || exit 9
run=/verif/seeded/$sid/demo/RUN.txt
cpline=$(grep -E "^\s*cp SEED/demo[0-9]*/" $run | head -1 | sed 's/^\s*//')
runline=$(grep -E "^\s*(GOFLAGS=[^ ]+ )?(GOPROXY=[^ ]+ )?go test" $run | head -1 | sed "s/^\s*//")
src=$(echo "$cpline" | awk '{print $2}'); dest=$(echo "$cpline" | awk '{print $3}')
case "$dest" in */) dest="$dest$(basename $src)";; esac
demo=/verif/seeded/$sid/demo/$(basename $src).txt
[ -f "$demo" ] || { echo "NO DEMO FILE $demo"; exit 9; }
cp $demo $dest
echo "--- demo on unmodified code (must pass):"; sh -c "$runline" 2>&1 | grep -E "^(--- FAIL|FAIL|ok)" | head -3
rm -f $dest
git apply $patch || { echo "SEED DOES NOT APPLY"; exit 9; }
echo "--- build + suite with seed (must pass):"; go build ./... 2>&1 | tail -3; go test -vet=off -count=1 ./... 2>&1 | grep -v "^ok\|no test files" | head -5; echo "(suite done)"
cp $demo $dest
echo "--- demo with seed (must fail):"; sh -c "$runline" 2>&1 | grep -E "^(--- FAIL|FAIL|ok)" | head -3
rm -f $dest
for c in "$@"; do echo "--- check $c on seeded tree:"; VERIF_REPO=$wt /verif/check $c quick 2>&1 | grep -E "VIOLATION|INCONCLUSIVE|KNOWN|exit=" | cut -c1-300 | head -5; done
git checkout -q -- .
