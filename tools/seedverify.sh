#!/bin/sh
# usage: tools/seedverify.sh <prop-id> <n> <check-id>...   — verifies seed n of /tmp/wt-<id>/SEED and runs the given checks on it
id="$1"; n="$2"; shift 2
wt=/tmp/wt-$id
export GOFLAGS=-mod=mod GOPROXY=off
cd $wt || exit 9
git checkout -q -- . ; git checkout -q --detach $(git -C /repo rev-parse HEAD) || exit 9
cpline=$(grep -E "^\s*cp SEED/demo$n/" SEED/demo$n/RUN.txt | head -1 | sed 's/^\s*//')
runline=$(grep -E "^\s*(GOFLAGS=[^ ]+ )?(GOPROXY=[^ ]+ )?go test" SEED/demo$n/RUN.txt | head -1 | sed "s/^\s*//")
dest=$(echo "$cpline" | awk '{print $3}')
src=$(echo "$cpline" | awk '{print $2}')
case "$dest" in */) dest="$dest$(basename $src)";; esac
echo "demo: $cpline ;; $runline"
sh -c "$cpline" || exit 9
echo "--- demo on unmodified code (must pass):"; sh -c "$runline" 2>&1 | tail -3
git apply SEED/seed$n.diff || { echo "SEED DOES NOT APPLY"; rm -f $dest; exit 9; }
echo "--- build + full suite with seed (must pass):"; go build ./... 2>&1 | tail -3; rm -f $dest; go test -vet=off -count=1 ./... 2>&1 | grep -v "^ok\|no test files" | head -5; echo "(suite done)"
sh -c "$cpline"
echo "--- demo with seed (must fail):"; sh -c "$runline" 2>&1 | grep -E "^(--- FAIL|FAIL|ok)" | head -3
rm -f $dest
for c in "$@"; do echo "--- check $c on seeded tree:"; VERIF_REPO=$wt /verif/check $c quick 2>&1 | grep -E "VIOLATION|INCONCLUSIVE|KNOWN|exit=" | cut -c1-300; done
git checkout -q -- .
