#!/bin/sh
# every stored behaviour-preserving refactoring through tools/refverify.sh (all 19 quick checks each).
# usage: tools/refall.sh [shard-index shard-count]  — with shards, each uses its own scratch worktree /tmp/wt-rshard<i> (removed at the end)
cd /verif
i=${1:-0}; n=${2:-1}
[ "$n" -gt 1 ] && { WT=/tmp/wt-rshard$i; export WT; }
k=0
for d in refactorings/*/; do
  k=$((k+1)); [ $((k % n)) -eq "$i" ] || continue
  id=$(basename $d); echo "## $id"
  tools/refverify.sh $id 2>&1 | grep -E "VIOLATION|INCONCLUSIVE|exit=|DOES NOT|FAIL|rror" | cut -c1-200
done
[ "$n" -gt 1 ] && git -C /repo worktree remove --force $WT
