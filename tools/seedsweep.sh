#!/bin/sh
# every stored seed must still apply to /repo's HEAD (git apply --check); lists those that do not.
# with the argument "build": also apply each one in the scratch worktree /tmp/wt-port and build it (about 10 min) — a patch
# can apply textually and no longer compile, or land in a twin function (only tools/seedrecheck.sh / seedall.sh prove a port)
cd /repo || exit 9
bad=0
for d in /verif/seeded/*/; do git apply --check $d/patch.diff 2>/dev/null || { echo "NOAPPLY $(basename $d)"; bad=1; }; done
[ $bad = 0 ] && echo "all $(ls -d /verif/seeded/*/ | wc -l) stored seeds apply to $(git rev-parse --short HEAD)"
[ "$1" = build ] || exit 0
wt=${WT:-/tmp/wt-port}
export GOFLAGS=-mod=mod GOPROXY=off
[ -d $wt ] || git -C /repo worktree add --detach $wt HEAD >/dev/null 2>&1
cd $wt || exit 9
git checkout -q -- .; git checkout -q --detach $(git -C /repo rev-parse HEAD) || exit 9
for d in /verif/seeded/*/; do
  git apply $d/patch.diff 2>/dev/null || continue
  go build ./... >/dev/null 2>&1 || echo "NOBUILD $(basename $d)"
  git checkout -q -- .
done
echo "(build sweep done)"
