#!/bin/sh
# every stored seed must still apply to /repo's HEAD (git apply --check); lists those that do not
cd /repo || exit 9
bad=0
for d in /verif/seeded/*/; do git apply --check $d/patch.diff 2>/dev/null || { echo "NOAPPLY $(basename $d)"; bad=1; }; done
[ $bad = 0 ] && echo "all $(ls -d /verif/seeded/*/ | wc -l) stored seeds apply to $(git rev-parse --short HEAD)"
