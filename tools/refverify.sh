#!/bin/sh
# usage: tools/refverify.sh <refactoring-id> [check-id...]  — applies the behaviour-preserving refactoring
# /verif/refactorings/<id>/patch.diff to a scratch worktree of /repo's HEAD (/tmp/wt-port), runs the pinned suite and then
# the given checks (default: all 19, quick tier) on the refactored tree: none may print a VIOLATION line.
id="$1"; shift
wt=${WT:-/tmp/wt-port}   # scratch worktree (WT=... for parallel shards)
export GOFLAGS=-mod=mod GOPROXY=off
[ -d $wt ] || git -C /repo worktree add --detach $wt HEAD >/dev/null 2>&1
cd $wt || exit 9
git checkout -q -- .; git clean -fdq src cmd; git checkout -q --detach $(git -C /repo rev-parse HEAD) || exit 9
git apply /verif/refactorings/$id/patch.diff || { echo "REFACTOR DOES NOT APPLY"; exit 9; }
echo "--- build + full suite (must pass):"; go build ./... 2>&1 | tail -3; go test -vet=off -count=1 ./src/... ./cmd/... 2>&1 | grep -v "^ok\|no test files" | head -5; echo "(suite done)"
checks="$@"; [ -z "$checks" ] && checks="C01 C02 C03 C04 C05 C06 C07 C08 C09 C10 C11 C12 C13 C14 C15 C16 C17 C18 C19"
for c in $checks; do VERIF_REPO=$wt /verif/check $c quick 2>&1 | grep -E "VIOLATION|INCONCLUSIVE|exit=|rror" | cut -c1-300 | head -6; done
git checkout -q -- .
