#!/bin/sh
# usage: tools/mut.sh <check-id> <file-relative-to-repo> <python-expr-old> <new>   (scratch copy under /tmp, removed afterwards)
# Applies one textual mutation to a scratch copy of /repo and runs the named check against it.
id="$1"; file="$2"; old="$3"; new="$4"
d=$(mktemp -d /tmp/mut.XXXXXX)
cp -r /repo/. "$d"/ && rm -rf "$d/.git"
python3 - "$d/$file" "$old" "$new" <<'PY'
import sys
p,old,new=sys.argv[1:4]
s=open(p).read()
if s.count(old)<1:
    print("MUTATION TARGET NOT FOUND"); sys.exit(3)
s=s.replace(old,new,1)
open(p,'w').write(s)
PY
[ $? -eq 0 ] || { rm -rf "$d"; exit 3; }
(cd "$d" && GOFLAGS=-mod=mod GOPROXY=off go build ./... ) || { echo "MUTANT DOES NOT BUILD"; rm -rf "$d"; exit 3; }
VERIF_REPO="$d" /verif/check "$id" "${5:-quick}" 2>&1 | grep -E "VIOLATION|INCONCLUSIVE|exit=|KNOWN" | cut -c1-400
rm -rf "$d"
