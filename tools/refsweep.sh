#!/bin/sh
# every stored refactoring must apply to /repo's HEAD AND build there (a patch can apply textually and no longer compile
# after a repair added code that uses what it renames); uses the scratch worktree /tmp/wt-port
wt=${WT:-/tmp/wt-port}
export GOFLAGS=-mod=mod GOPROXY=off
[ -d $wt ] || git -C /repo worktree add --detach $wt HEAD >/dev/null 2>&1
cd $wt || exit 9
git checkout -q -- .; git checkout -q --detach $(git -C /repo rev-parse HEAD) || exit 9
bad=0
for d in /verif/refactorings/*/; do
  id=$(basename $d)
  git apply $d/patch.diff 2>/dev/null || { echo "NOAPPLY $id"; bad=1; git checkout -q -- .; continue; }
  go build ./... >/dev/null 2>&1 || { echo "NOBUILD $id"; bad=1; }
  git checkout -q -- .; git clean -fdq src cmd
done
[ $bad = 0 ] && echo "all stored refactorings apply and build on $(git -C /repo rev-parse --short HEAD)"
